#!/bin/bash
# Run the quick (or given) tier of a property's check against each listed seeded change; summarise.
# Usage: run_seeded.sh <tier> <id>...
tier="$1"; shift
cd /verif
for id in "$@"; do
  prop=${id%%-*}
  rm -rf /verif/.build/replays-$id; mkdir -p /verif/.build/replays-$id
  start=$(date +%s)
  tools/try_patch.sh /verif/seeded/$id/patch.diff $prop $tier > /verif/.build/mut-$id.log 2>&1
  rc=$?
  mv /verif/replays/*.json /verif/.build/replays-$id/ 2>/dev/null
  echo "$id: exit=$rc $(( $(date +%s) - start ))s | $(grep -a -m1 -B3 VIOLATION /verif/.build/mut-$id.log | grep -a -v KNOWN | head -n 2 | cut -c1-260 | tr '\n' ' ')"
done
