#!/bin/bash
# Property-preserving changes: both checks must stay quiet (exit 0, no VIOLATION).
cd /verif
for id in "$@"; do
  for prop in C19 C20; do
    start=$(date +%s)
    tools/try_patch.sh /verif/seeded/$id/patch.diff $prop quick > /verif/.build/quiet-$id-$prop.log 2>&1
    rc=$?
    rm -f /verif/replays/*.json
    echo "$id $prop: exit=$rc $(( $(date +%s) - start ))s $(grep -a -c VIOLATION /verif/.build/quiet-$id-$prop.log) violations | $(grep -a -m1 'INFRA\|VIOLATION' /verif/.build/quiet-$id-$prop.log | cut -c1-200)"
  done
done
