#!/bin/bash
# Apply a patch to /repo, run a check, always restore /repo. Usage: try_patch.sh <patch.diff> <C19|C20> [quick|thorough]
# Output of the check goes to stdout; replays produced go to /verif/replays (move them away if you want to keep them).
set -u
patch="$1"; prop="$2"; tier="${3:-quick}"
if [ -n "$(git -C /repo status --porcelain)" ]; then echo "try_patch: /repo is not clean" >&2; exit 3; fi
git -C /repo apply "$patch" || { echo "try_patch: patch does not apply" >&2; exit 3; }
# Evidence files are rewritten by every check run: keep the ones from the clean tree.
evbak=$(mktemp -d /verif/.build/evbak.XXXXXX); cp /verif/evidence/*.json "$evbak"/ 2>/dev/null
trap 'git -C /repo checkout -- . ; git -C /repo clean -fdq path; cp "$evbak"/*.json /verif/evidence/ 2>/dev/null; rm -rf "$evbak"' EXIT
cd /verif && ./check "$prop" "$tier"
rc=$?
echo "try_patch: check exit=$rc"
exit $rc
