#!/bin/bash
# Validate a seeded change in a scratch worktree of /repo (outside /repo and /verif):
#   1. patch applies, library builds, the whole existing suite passes with it;
#   2. the demonstration fails with the patch and passes without it.
# Usage: validate_mutant.sh <dir with patch.diff, meta.json, demo file(s)>
# meta.json: demo_dir (package dir relative to repo root where demo *_test.go files are copied), demo_cmd (run at repo root)
set -u
export GOFLAGS=-mod=mod GOPROXY=off GOSUMDB=off GOTOOLCHAIN=local
src="$(cd "$1" && pwd)"
wt="/tmp/validate-$$"
git -C /repo worktree add -q --detach "$wt" HEAD || exit 3
cleanup() { git -C /repo worktree remove --force "$wt" 2>/dev/null; rm -rf "$wt"; }
trap cleanup EXIT
demo_dir=$(python3 -c "import json,sys;print(json.load(open('$src/meta.json')).get('demo_dir','.'))")
demo_cmd=$(python3 -c "import json,sys;print(json.load(open('$src/meta.json')).get('demo_cmd',''))")
cd "$wt"
copy_demo() { mkdir -p "$wt/$demo_dir" && cp "$src/demo_test.go" "$wt/$demo_dir/zz_seeded_demo_test.go"; }
echo "== without patch: demo must pass"
copy_demo
if bash -c "$demo_cmd" > "$wt/demo_without.log" 2>&1; then echo "demo passes without patch: OK"; else echo "demo FAILS without patch: INVALID"; tail -20 "$wt/demo_without.log"; exit 1; fi
rm -f "$wt/$demo_dir"/zz_seeded_demo_test.go
git checkout -q -- . ; git clean -fdq path internal 2>/dev/null
echo "== with patch: build + existing suite must pass"
git apply "$src/patch.diff" || { echo "patch does not apply: INVALID"; exit 1; }
go build ./... || { echo "does not build: INVALID"; exit 1; }
if go test -vet=off -count=1 ./... > "$wt/suite.log" 2>&1; then echo "existing suite passes with patch: OK"; else echo "existing suite FAILS with patch: INVALID"; grep -v "^ok" "$wt/suite.log" | tail -20; exit 1; fi
echo "== with patch: demo must fail"
copy_demo
if bash -c "$demo_cmd" > "$wt/demo_with.log" 2>&1; then echo "demo PASSES with patch: INVALID"; tail -5 "$wt/demo_with.log"; exit 1; else echo "demo fails with patch: OK"; tail -6 "$wt/demo_with.log"; fi
echo "VALID"
