package sim

import (
	"bytes"
	"context"
	"crypto/sha256"
	"encoding/hex"
	"encoding/json"
	"fmt"
	"runtime"
	"runtime/debug"
	"sort"
	"strconv"
	"strings"
	"testing/synctest"
	"time"

	"github.com/theory/sqljson/path"
	"github.com/theory/sqljson/path/ast"
	"github.com/theory/sqljson/path/exec"
	"github.com/theory/sqljson/path/types"
)

// HarnessError marks trouble in the simulator itself (bad scenario, broken
// generator invariant, missing hook). It is never a property violation.
type HarnessError struct{ Msg string }

func (e *HarnessError) Error() string { return "harness: " + e.Msg }

func harnessf(format string, a ...any) *HarnessError {
	return &HarnessError{Msg: fmt.Sprintf(format, a...)}
}

// world holds the objects shared by all tasks of a scenario.
type world struct {
	sc       *Scenario
	paths    []*path.Path
	anc      []map[ast.Node][]string
	astSize  []int
	wild     []bool // path uses .* or .**
	docs     []any
	vars     []exec.Vars
	zones    map[string]*time.Location
	startAt  time.Time
	docSnap  []string // rendering before the run (immutability oracle)
	varSnap  []string
	pathSnap []string
	single   bool // the scenario has one task
	zoneBase map[string]context.Context // shared base context per zone (an application-wide context carrying the time zone)
	opts     map[string][]exec.Option   // option slices shared by all calls with the same options, with spare capacity
}

func decodeJSON(d DocSpec) (any, error) {
	dec := json.NewDecoder(strings.NewReader(d.JSON))
	if d.Number {
		dec.UseNumber()
	}
	var v any
	if err := dec.Decode(&v); err != nil {
		if !d.Number && strings.Contains(err.Error(), "cannot unmarshal number") {
			// Numbers outside float64 (1e400) exist only as json.Number.
			return decodeJSON(DocSpec{JSON: d.JSON, Number: true})
		}
		return nil, err
	}
	if dec.More() {
		return nil, fmt.Errorf("trailing data")
	}
	if d.Int64 && !d.Number {
		v = integralToInt64(v)
	}
	return v, nil
}

// usesWildcard reports whether the path iterates object members in Go map
// order (.* or .**), judged on the parsed tree.
func usesWildcard(anc map[ast.Node][]string) bool {
	for n := range anc {
		switch n := n.(type) {
		case *ast.AnyNode:
			return true
		case *ast.ConstNode:
			if n.Const() == ast.ConstAnyKey {
				return true
			}
		}
	}
	return false
}

// maxMembers returns the largest number of members of any object inside v.
func maxMembers(v any) int {
	switch v := v.(type) {
	case map[string]any:
		m := len(v)
		if uniformScalars(v) {
			// All members are the same scalar: whatever order Go iterates
			// the map in, the execution and its result are identical.
			m = 1
		}
		for _, e := range v {
			if x := maxMembers(e); x > m {
				m = x
			}
		}
		return m
	case exec.Vars:
		return maxMembers(map[string]any(v))
	case []any:
		m := 0
		for _, e := range v {
			if x := maxMembers(e); x > m {
				m = x
			}
		}
		return m
	}
	return 0
}

func loadZone(name string) (*time.Location, error) {
	switch {
	case name == "":
		return nil, nil
	case name == "UTC":
		return time.UTC, nil
	case name[0] == '+' || name[0] == '-':
		var h, m int
		if _, err := fmt.Sscanf(name[1:], "%d:%d", &h, &m); err != nil {
			return nil, fmt.Errorf("bad fixed zone %q", name)
		}
		off := h*3600 + m*60
		if name[0] == '-' {
			off = -off
		}
		return time.FixedZone("", off), nil
	}
	return time.LoadLocation(name)
}

// buildWorld parses and decodes everything the scenario shares and checks
// the generator invariants the oracles rely on.
func buildWorld(sc *Scenario) (*world, error) {
	w := &world{sc: sc, zones: map[string]*time.Location{}, single: len(sc.Tasks) == 1,
		zoneBase: map[string]context.Context{}, opts: map[string][]exec.Option{}}
	start, err := time.Parse(time.RFC3339, sc.Start)
	if err != nil {
		return nil, harnessf("bad start %q: %v", sc.Start, err)
	}
	w.startAt = start.UTC()
	usedAsPath := map[int]bool{}
	for _, t := range sc.Tasks {
		for _, o := range t.Ops {
			if o.Kind != "parse" && o.Kind != "scan" && o.Kind != "unmarshal" {
				usedAsPath[o.Path] = true
			}
		}
	}
	for i, txt := range sc.Paths {
		tickProgress()
		if ColdStart && !usedAsPath[i] {
			// Cold start: a text that is only ever parsed by the tasks
			// themselves is not parsed here, so that the parser's first
			// use can be theirs.
			w.paths = append(w.paths, nil)
			w.anc = append(w.anc, nil)
			w.astSize = append(w.astSize, 0)
			w.wild = append(w.wild, false)
			w.pathSnap = append(w.pathSnap, "")
			continue
		}
		p, err := safeParse(txt)
		if err != nil {
			// Unparseable texts are legal only for "parse" ops.
			w.paths = append(w.paths, nil)
			w.anc = append(w.anc, nil)
			w.astSize = append(w.astSize, 0)
			w.wild = append(w.wild, false)
			w.pathSnap = append(w.pathSnap, "")
			_ = i
			continue
		}
		anc, n := walkAST(p.AST)
		w.paths = append(w.paths, p)
		w.anc = append(w.anc, anc)
		w.astSize = append(w.astSize, n)
		w.wild = append(w.wild, usesWildcard(anc))
		// The snapshot is taken from a second parse of the same text, so
		// that the shared Path is never used before the concurrent phase
		// (a lazily filled cache in the AST must meet its first use there).
		// (It is also taken only when the scenario is over - see
		// checkImmutable -: printing a twin now would warm process-wide
		// memos of printed strings before the tasks print concurrently.)
		w.pathSnap = append(w.pathSnap, "")
	}
	for i, d := range sc.Docs {
		v, err := decodeJSON(d)
		if err != nil {
			return nil, harnessf("doc %d: %v", i, err)
		}
		w.docs = append(w.docs, v)
		w.docSnap = append(w.docSnap, renderValue(v, false))
	}
	for i, d := range sc.Vars {
		v, err := decodeJSON(d)
		if err != nil {
			return nil, harnessf("vars %d: %v", i, err)
		}
		m, ok := v.(map[string]any)
		if !ok {
			return nil, harnessf("vars %d: not an object", i)
		}
		if d.Native {
			nativeVars(m)
		}
		w.vars = append(w.vars, exec.Vars(m))
		w.varSnap = append(w.varSnap, renderValue(m, false))
	}
	deadlineTask := -1
	for ti, t := range sc.Tasks {
		for oi, o := range t.Ops {
			if _, ok := w.zones[o.TZDerive]; !ok {
				loc, err := loadZone(o.TZDerive)
				if err != nil {
					return nil, harnessf("task %d op %d: zone %q: %v", ti, oi, o.TZDerive, err)
				}
				w.zones[o.TZDerive] = loc
				if loc != nil {
					w.zoneBase[o.TZDerive] = types.ContextWithTZ(context.Background(), loc)
				}
			}
			if _, ok := w.zones[o.Zone]; !ok {
				loc, err := loadZone(o.Zone)
				if err != nil {
					return nil, harnessf("task %d op %d: zone %q: %v", ti, oi, o.Zone, err)
				}
				w.zones[o.Zone] = loc
				if loc != nil {
					w.zoneBase[o.Zone] = types.ContextWithTZ(context.Background(), loc)
				}
			}
			if o.IsExec() {
				if _, ok := w.opts[optKey(o)]; !ok {
					w.opts[optKey(o)] = w.buildOpts(o)
				}
			}
			if o.Kind != "parse" && o.Kind != "scan" && o.Kind != "unmarshal" && w.paths[o.Path] == nil {
				return nil, harnessf("task %d op %d: path %q does not parse", ti, oi, sc.Paths[o.Path])
			}
			if o.IsExec() && w.wild[o.Path] && strings.Contains(sc.Paths[o.Path], "keyvalue") && textualWild(sc.Paths[o.Path]) {
				return nil, harnessf("task %d op %d: path %q combines keyvalue() with a wildcard (member order of the generated triple)", ti, oi, sc.Paths[o.Path])
			}
			if o.IsExec() && w.wild[o.Path] && textualWild(sc.Paths[o.Path]) {
				// (A parsed tree with a wildcard for a text without one
				// means Parse returned somebody else's Path: that is for
				// the oracles to report, not a generator slip.)
				// DESIGN 3.6: object member order is kept out of the
				// workload; a generator or minimiser slip must not
				// surface as a false violation.
				if maxMembers(w.docs[o.Doc]) > 1 {
					return nil, harnessf("task %d op %d: wildcard path %q with multi-member object in doc %d", ti, oi, sc.Paths[o.Path], o.Doc)
				}
				if o.Vars >= 0 {
					for _, v := range w.vars[o.Vars] {
						if maxMembers(v) > 1 {
							return nil, harnessf("task %d op %d: wildcard path %q with multi-member object in vars %d", ti, oi, sc.Paths[o.Path], o.Vars)
						}
					}
				}
			}
			if o.Fault != nil && o.Fault.Err == "deadline" && o.Ctx == "deadline" {
				if deadlineTask >= 0 && deadlineTask != ti {
					return nil, harnessf("faulted deadline ops in more than one task (%d and %d)", deadlineTask, ti)
				}
				deadlineTask = ti
			}
		}
	}
	return w, nil
}

// pathSnapshot renders everything observable about a Path through its
// exported, non-executing API.
func pathSnapshot(p *path.Path) string {
	txt, _ := p.MarshalText()
	return fmt.Sprintf("%s|%s|pred=%v|op=%s|lax=%v", p.String(), txt, p.IsPredicate(), p.PgIndexOperator(), p.IsLax())
}

// ---------------------------------------------------------------------------
// Tasks and parking.

type parkKind int

const (
	parkBoundary parkKind = iota // before an operation starts
	parkStep                     // in the step hook
	parkDone                     // task finished
	parkSync                     // before a synchronisation operation of the library (instrumented build only)
)

// instrBuild is set by builds against the instrumented library copy.
var instrBuild bool

// currentTask is the one task the interleave scheduler has released
// (instrumented builds only; never set in window mode).
var currentTask *task

func syncYield() {
	if t := currentTask; t != nil {
		t.yield(parkEvent{kind: parkSync, node: "sync"})
	}
}

type parkEvent struct {
	kind    parkKind
	op      int
	step    int
	node    string
	st      *opState
	release chan struct{}
}

type task struct {
	id       int
	spec     TaskSpec
	parkCh   chan parkEvent // unbuffered, private to this task: no sync edge between tasks
	cur      parkEvent
	done     bool
	opIdx    int
	inFlight *OpSpec
	results  []*Outcome
	panicked string
	blocked  bool // released, but waiting inside the library (not parked)

	// Instrumented builds: a task parked before a synchronisation operation
	// may be held back for a few of its turns (a fixed function of the
	// scenario), so that the others can take several steps between two
	// synchronisation operations of this one.
	syncParks   int
	holdDecided bool
	holdLeft    int
}

// releaseContexts cancels every context the listed outcomes still hold.
func releaseContexts(outs []*Outcome) {
	for _, o := range outs {
		if o != nil && o.cleanup != nil {
			o.cleanup()
			o.cleanup = nil
		}
	}
}

func (t *task) yield(ev parkEvent) {
	ev.op = t.opIdx
	ev.release = make(chan struct{})
	t.parkCh <- ev
	<-ev.release
}

// execOp performs one operation and returns its outcome. tk is nil for
// reference ("alone") runs. shared selects the shared Path object; otherwise
// the path text is parsed afresh.
func (w *world) execOp(op OpSpec, tk *task, fresh bool) (out *Outcome) {
	out = &Outcome{StartNanos: time.Now().UnixNano()}
	var st *opState
	defer func() {
		if r := recover(); r != nil {
			if he, ok := r.(*HarnessError); ok {
				panic(he)
			}
			if s, ok := r.(string); ok && strings.HasPrefix(s, "harness:") {
				panic(r)
			}
			out.Panic = fmt.Sprint(r)
			if len(out.Panic) > 300 {
				out.Panic = out.Panic[:300]
			}
			// Keep the innermost non-runtime frame for diagnosis.
			out.Panic += " @ " + panicSite(debug.Stack())
		}
		if st != nil {
			// Contexts stay live until the end of the bubble, as a caller's
			// long-lived request context would: state that a change keeps
			// from one call's context is then still "live" in the next.
			out.cleanup = st.cleanup
			out.Polls, out.Steps = st.polls, st.steps
			out.Fired = st.fired
			out.PollsAfter, out.StepsAfter = st.pollsAfter, st.stepsAfter
			out.Observable = st.fired && (st.pollsAfter > 0 || st.stepsAfter > 0 ||
				(st.fault != nil && (st.fault.Model == "poll" || st.fault.Model == "pre")))
			out.FireNode, out.FireStack = st.fireNode, st.fireStack
			out.nodeKinds = st.nodeKinds
		}
	}()

	txt := w.sc.Paths[op.Path]
	switch op.Kind {
	case "parse":
		p, err := path.Parse(txt)
		if err != nil {
			out.setErr(err)
			return out
		}
		out.Raw = "parsed:" + p.String()
		out.Ranked = out.Raw
		return out
	case "scan", "unmarshal":
		// Scan/unmarshal into the caller's OWN, freshly parsed Path: legal
		// use that must not affect anybody else's Path.
		p, err := path.Parse(txt)
		if err != nil {
			out.setErr(err)
			return out
		}
		// The bytes come from a buffer the caller reuses afterwards (a
		// read loop, a SQL driver's row buffer): the Path must not keep
		// looking at it.
		buf := []byte(w.sc.Paths[op.Path2])
		// A copy of the Path value taken before the destination is scanned
		// into again (rows.Scan(&dest); paths = append(paths, dest) in a
		// loop) must keep meaning what it meant.
		kept := *p
		keptBefore := kept.String()
		if op.Kind == "scan" {
			err = p.Scan(buf)
		} else {
			err = p.UnmarshalText(buf)
		}
		if keptAfter := kept.String(); keptAfter != keptBefore {
			out.Identity = "a copy of the Path value changed when its original was scanned into again: before " + keptBefore + ", after " + keptAfter
		}
		before := p.String()
		for i := range buf {
			buf[i] = 'x'
		}
		out.Raw = "scanned:" + p.String()
		out.Ranked = out.Raw
		if before != p.String() && out.Identity == "" {
			out.Identity = "the decoded Path changed when the caller reused the byte buffer it was decoded from: before " + before + ", after " + p.String()
		}
		out.setErr(err)
		return out
	case "churn":
		// Self-checking; run in the simulated phase only (reference passes
		// would just repeat it twice more).
		out.Raw, out.Ranked = "churn", "churn"
		if tk != nil {
			_, out.Identity = churn(op.Path)
		}
		return out
	case "string":
		out.Raw = "string:" + w.pickPath(op, fresh).String()
		out.Ranked = out.Raw
		return out
	case "marshal":
		b, err := w.pickPath(op, fresh).MarshalText()
		out.Raw = "marshal:" + string(b)
		out.Ranked = out.Raw
		out.setErr(err)
		return out
	case "ispredicate":
		p := w.pickPath(op, fresh)
		out.Raw = fmt.Sprintf("ispredicate:%v:%s", p.IsPredicate(), p.PgIndexOperator())
		out.Ranked = out.Raw
		return out
	}

	p := w.pickPath(op, fresh || op.Kind == "parsequery")
	if op.Via == "new" {
		// Another Path value over the same AST.
		p = path.New(p.AST)
	}
	var anc map[ast.Node][]string
	if fresh || op.Kind == "parsequery" {
		anc, _ = walkAST(p.AST)
	} else {
		anc = w.anc[op.Path]
	}
	var ctx context.Context
	var err error
	var root context.Context
	if !op.TZOuter {
		root = w.zoneBase[op.Zone]
		if base := w.zoneBase[op.TZDerive]; base != nil && w.zones[op.Zone] != nil {
			// A per-request zone derived, at call time, directly from
			// the shared base context of another zone.
			root = types.ContextWithTZ(base, w.zones[op.Zone])
		}
	}
	st, ctx, err = newOpState(op, tk, root)
	if err != nil {
		panic(harnessf("%v", err))
	}
	st.anc = anc
	if tk == nil || w.single {
		// Exactly one execution is in flight in this process: a step that
		// arrives with a context that is not (derived from) ours still
		// belongs to it. Never used when tasks run in parallel (a shared
		// variable would order them for the race detector).
		soleOp = st
		defer func() { soleOp = nil }()
	}
	if loc := w.zones[op.Zone]; loc != nil && op.TZOuter {
		ctx = types.ContextWithTZ(ctx, loc)
	}
	// One option slice per option set, shared by every call that uses it
	// (as a caller's package-level `var opts = []exec.Option{...}` would be).
	opts := w.opts[optKey(op)]
	doc := w.docs[op.Doc]
	var ret any
	switch op.Kind {
	case "rekeyquery":
		// The caller's own copy of the document: query it, rename object
		// keys IN PLACE (same objects, same addresses, same sizes), query
		// again, and compare with the same query on a fresh copy of the
		// renamed document. A result may depend on the value of its
		// input, never on which object carries it or on what that object
		// held during an earlier call.
		priv := deepCopy(doc)
		// The caller's own variables map too: same map object, values
		// changed in place between the calls.
		mkOpts := func(vars exec.Vars) []exec.Option {
			var o []exec.Option
			if vars != nil {
				o = append(o, exec.WithVars(vars))
			}
			if op.Silent {
				o = append(o, exec.WithSilent())
			}
			if op.TZ {
				o = append(o, exec.WithTZ())
			}
			return o
		}
		var privVars exec.Vars
		if op.Vars >= 0 {
			privVars = exec.Vars(deepCopy(map[string]any(w.vars[op.Vars])).(map[string]any))
		}
		opts := mkOpts(privVars)
		r1, e1 := p.Query(ctx, priv, opts...)
		rekey(priv)
		bumpVars(privVars)
		r2, e2 := p.Query(ctx, priv, opts...)
		var freshVars exec.Vars
		if privVars != nil {
			freshVars = exec.Vars(deepCopy(map[string]any(privVars)).(map[string]any))
		}
		r3, e3 := p.Query(ctx, deepCopy(priv), mkOpts(freshVars)...)
		// (Private copies live at different addresses in every call, so
		// keyvalue ids are compared by rank, and paths that turn ids into
		// plain values are not compared at all.)
		if addrDependent(txt) {
			out.Raw, out.Ranked = "addr-dependent", "addr-dependent"
			return out
		}
		out.Ranked = renderItems(r1, true) + errSuffix(e1) + " / after in-place rename: " + renderItems(r2, true) + errSuffix(e2)
		out.Raw = out.Ranked
		if a, b := renderItems(r2, true)+errSuffix(e2), renderItems(r3, true)+errSuffix(e3); a != b {
			out.Identity = "on the caller's document after an in-place rename of its keys: " + a + "; on a fresh copy of that same document: " + b
		}
		return out
	case "query", "parsequery":
		var items []any
		if op.Via == "exec" {
			items, err = exec.Query(ctx, p.AST, doc, opts...)
		} else {
			items, err = p.Query(ctx, doc, opts...)
		}
		if items == nil {
			ret = "noitems"
		} else {
			ret = items
		}
	case "first":
		if op.Via == "exec" {
			ret, err = exec.First(ctx, p.AST, doc, opts...)
		} else {
			ret, err = p.First(ctx, doc, opts...)
		}
	case "exists":
		if op.Via == "exec" {
			ret, err = exec.Exists(ctx, p.AST, doc, opts...)
		} else {
			ret, err = p.Exists(ctx, doc, opts...)
		}
	case "match":
		if op.Via == "exec" {
			ret, err = exec.Match(ctx, p.AST, doc, opts...)
		} else {
			ret, err = p.Match(ctx, doc, opts...)
		}
	case "existsormatch":
		ret, err = p.ExistsOrMatch(ctx, doc, opts...)
	}
	out.ret = ret
	if ret == "noitems" {
		out.Raw, out.Ranked = "<nil>", "<nil>"
	} else {
		out.Raw = renderValue(ret, false)
		out.Ranked = renderValue(ret, true)
	}
	out.setErr(err)
	// What a call returns belongs to the caller. Values the call created
	// (datetime items, keyvalue triples) are overwritten here, as a caller
	// reusing them would; nobody else may notice.
	scribble(ret, op.Kind == "query" || op.Kind == "parsequery")
	out.rawKept = renderValue(ret, false)
	return out
}

func (o *Outcome) setErr(err error) {
	if err != nil {
		o.Err = err.Error()
		o.Classes = errClasses(err)
		o.errObj = err
	}
}

func safeErrorText(err error) (s string) {
	defer func() {
		if r := recover(); r != nil {
			s = fmt.Sprint("panic in Error(): ", r)
		}
	}()
	return err.Error()
}

// safeParse is path.Parse with a panic turned into an error (Parse panics on
// a few inputs on the unchanged tree, e.g. numeric literals out of range).
func safeParse(text string) (p *path.Path, err error) {
	defer func() {
		if r := recover(); r != nil {
			p, err = nil, fmt.Errorf("panic in Parse: %v", r)
		}
	}()
	return path.Parse(text)
}

func optKey(o OpSpec) string {
	return fmt.Sprintf("%d/%d/%v/%v", o.Vars, o.Vars2, o.Silent, o.TZ)
}

func (w *world) buildOpts(o OpSpec) []exec.Option {
	opts := make([]exec.Option, 0, 8) // spare capacity on purpose
	if o.Vars >= 0 {
		opts = append(opts, exec.WithVars(w.vars[o.Vars]))
	}
	if o.Vars2 > 0 {
		// A second WithVars replaces the first (options apply in order).
		opts = append(opts, exec.WithVars(w.vars[o.Vars2-1]))
	}
	if o.Silent {
		opts = append(opts, exec.WithSilent())
	}
	if o.TZ {
		opts = append(opts, exec.WithTZ())
	}
	return opts
}

var scribbleTime = time.Date(1999, 12, 31, 23, 59, 59, 0, time.UTC)

// scribble overwrites the values a call created for its caller.
func scribble(v any, ownsSlice bool) {
	switch v := v.(type) {
	case []any:
		if ownsSlice {
			// The slice Query returns is the caller's, too (a single
			// item returned by First may be part of the document).
			defer func() {
				for i := range v {
					v[i] = "overwritten by the caller"
				}
			}()
		}
		for _, e := range v {
			switch e := e.(type) {
			case *types.Date:
				e.Time = scribbleTime
			case *types.Time:
				e.Time = scribbleTime
			case *types.TimeTZ:
				e.Time = scribbleTime
			case *types.Timestamp:
				e.Time = scribbleTime
			case *types.TimestampTZ:
				e.Time = scribbleTime
			case map[string]any:
				if _, ok := isKeyValueTriple(e); ok {
					e["key"] = "scribbled"
				}
			}
		}
	case *types.Date, *types.Time, *types.TimeTZ, *types.Timestamp, *types.TimestampTZ, map[string]any:
		scribble([]any{v}, false)
	}
}

func (w *world) pickPath(op OpSpec, fresh bool) *path.Path {
	if !fresh {
		return w.paths[op.Path]
	}
	p, err := path.Parse(w.sc.Paths[op.Path])
	if err != nil {
		panic(harnessf("fresh parse of %q failed: %v", w.sc.Paths[op.Path], err))
	}
	return p
}

func panicSite(stack []byte) string {
	lines := strings.Split(string(stack), "\n")
	for i := 0; i+1 < len(lines); i++ {
		l := lines[i]
		if strings.HasPrefix(l, "github.com/theory/sqljson/") {
			// Function name and file:line only: argument values and PC
			// offsets differ between executions.
			fn := l
			if k := strings.LastIndex(fn, "("); k > 0 {
				fn = fn[:k]
			}
			loc := strings.TrimSpace(lines[i+1])
			if k := strings.Index(loc, " +0x"); k > 0 {
				loc = loc[:k]
			}
			if k := strings.LastIndex(loc, "/path/"); k >= 0 {
				loc = loc[k+1:]
			}
			return strings.TrimSpace(fn) + " " + loc
		}
	}
	return "?"
}

// ---------------------------------------------------------------------------
// Scheduler.

// RunStats counts what actually happened in one scenario.
type RunStats struct {
	Windows        int            `json:"windows"`
	Steps          int            `json:"steps"`
	Ops            int            `json:"ops"`
	FaultsFired    map[string]int `json:"faults_fired"`
	SimSeconds     float64        `json:"sim_s"` // fake-clock time covered, in seconds (a sum of nanoseconds overflows: scenarios jump decades)
	ConcPairs      map[string]int `json:"conc_pairs,omitempty"`  // node-kind pairs stepped in one window
	SameNodePairs  int            `json:"same_node_pairs"`       // ... on the same Path object
	MaxWindow      int            `json:"max_window"`
	JumpsSkipped   int            `json:"jumps_skipped"`
	FireStacks     map[string]int `json:"fire_stacks,omitempty"` // fault landed under these operand ancestors
	NodeKinds      map[string]int `json:"node_kinds,omitempty"`
	Unobservable   int            `json:"unobservable"`
	DSTCrossed     int            `json:"dst_crossed"`
	GCBetweenKV    int            `json:"gc_between_kv"`
	BlockedInLibrary int          `json:"blocked_in_library"`
	SyncYields     int            `json:"sync_yields"`
}

func newRunStats() *RunStats {
	return &RunStats{FaultsFired: map[string]int{}, ConcPairs: map[string]int{}, FireStacks: map[string]int{}, NodeKinds: map[string]int{}}
}

type changedResult struct {
	task, op      int
	before, after string
}

type runResult struct {
	changed  []changedResult
	outcomes [][]*Outcome // [task][op]
	log      bytes.Buffer // event log (fingerprint input)
	stats    *RunStats
}

func (r *runResult) fingerprint() string {
	h := sha256.Sum256(r.log.Bytes())
	return hex.EncodeToString(h[:16])
}

const maxScenarioSteps = 2000000

// runConcurrent executes the scenario's tasks under the scenario's schedule.
// Must be called inside a synctest bubble.
func (w *world) runConcurrent() *runResult {
	sc := w.sc
	res := &runResult{stats: newRunStats()}
	tasks := make([]*task, len(sc.Tasks))
	for i := range sc.Tasks {
		tasks[i] = &task{id: i, spec: sc.Tasks[i], parkCh: make(chan parkEvent)}
	}
	if d := time.Until(w.startAt); d > 0 {
		time.Sleep(d)
	}
	t0 := time.Now()
	for _, t := range tasks {
		go w.taskMain(t)
	}
	for _, t := range tasks {
		t.cur = <-t.parkCh
		w.noteArrival(t, res)
	}

	logf := func(format string, a ...any) { fmt.Fprintf(&res.log, format, a...) }
	// collect waits for a released task to park again. A task that instead
	// blocks inside the library (waiting for another caller that is parked)
	// is detected by the fake clock: it only advances when every goroutine
	// of the bubble is durably blocked, so the timeout fires exactly then.
	// Sleeps the simulator itself makes (deadline faults, 2 s) are shorter.
	const blockedAfter = 30 * time.Second
	timer := time.NewTimer(time.Hour)
	timer.Stop()
	collect := func(t *task) {
		timer.Reset(blockedAfter)
		select {
		case t.cur = <-t.parkCh:
			timer.Stop()
			t.blocked = false
			w.noteArrival(t, res)
		case <-timer.C:
			t.blocked = true
			res.stats.BlockedInLibrary++
		}
	}
	// pollBlocked picks up tasks that were blocked and have parked since.
	pollBlocked := func() {
		any := false
		for _, t := range tasks {
			any = any || t.blocked
		}
		if !any {
			return
		}
		synctest.Wait()
		for _, t := range tasks {
			if !t.blocked {
				continue
			}
			select {
			case t.cur = <-t.parkCh:
				t.blocked = false
				w.noteArrival(t, res)
				logf("unblocked t%d\n", t.id)
			default:
			}
		}
	}

	var ballast [][]byte
	kvSeen := false
	winIdx := 0
	rr := 0
	logf("start %s mode=%s tasks=%d\n", time.Now().UTC().Format(time.RFC3339Nano), sc.Mode, len(tasks))

	for {
		alive := 0
		for _, t := range tasks {
			if !t.done {
				alive++
			}
		}
		if alive == 0 {
			break
		}
		var win Window
		if winIdx < len(sc.Schedule) {
			win = sc.Schedule[winIdx]
			winIdx++
		} else {
			// Schedule exhausted: round-robin, one task per window.
			runnable := false
			for _, t := range tasks {
				runnable = runnable || (!t.done && !t.blocked)
			}
			if !runnable {
				panic(harnessf("every remaining task is blocked inside the library: the simulator cannot make progress"))
			}
			for tasks[rr%len(tasks)].done || tasks[rr%len(tasks)].blocked {
				rr++
			}
			win = Window{Tasks: []int{rr % len(tasks)}}
			rr++
		}

		// Global faults attached to the window.
		if win.GC {
			runtime.GC()
			res.stats.FaultsFired["gc"]++
			if kvSeen {
				res.stats.GCBetweenKV++
			}
			logf("w%d gc\n", res.stats.Windows)
		}
		if win.Ballast > 0 {
			for i := 0; i < win.Ballast; i++ {
				ballast = append(ballast, make([]byte, 16+(i*37)%400))
			}
			res.stats.FaultsFired["ballast"]++
			logf("w%d ballast %d\n", res.stats.Windows, win.Ballast)
		}
		if win.JumpTo != "" {
			to, err := time.Parse(time.RFC3339, win.JumpTo)
			if err != nil {
				panic(harnessf("bad jump_to %q", win.JumpTo))
			}
			if w.clockBusy(tasks) {
				// A zone-sensitive op (its reference is taken at the
				// date it started on) or a faulted deadline op is in
				// flight: postpone (skip) the jump. Deliberate, narrow
				// restriction, see DESIGN 6.1.
				res.stats.JumpsSkipped++
				logf("w%d jump skipped\n", res.stats.Windows)
			} else if d := time.Until(to); d > 0 {
				before := time.Now()
				time.Sleep(d)
				res.stats.FaultsFired["clock-jump"]++
				if w.crossesDST(before, time.Now()) {
					res.stats.DSTCrossed++
				}
				logf("w%d jump to %s\n", res.stats.Windows, time.Now().UTC().Format(time.RFC3339Nano))
			}
		}

		// Members: listed tasks that are still running, once each, by id.
		seen := map[int]bool{}
		var members []*task
		for _, id := range win.Tasks {
			if !seen[id] && !tasks[id].done && !tasks[id].blocked {
				seen[id] = true
				members = append(members, tasks[id])
			}
		}
		if len(members) == 0 {
			continue
		}
		sort.Slice(members, func(i, j int) bool { return members[i].id < members[j].id })
		if len(members) > res.stats.MaxWindow {
			res.stats.MaxWindow = len(members)
		}

		if instrBuild && sc.Mode == "interleave" && len(members) == 1 && members[0].cur.kind == parkSync {
			t := members[0]
			if !t.holdDecided {
				t.holdDecided = true
				t.syncParks++
				h := (sc.Seed+uint64(t.id)*0x9E3779B97F4A7C15+uint64(t.syncParks))*0xBF58476D1CE4E5B9 >> 29
				if h%2 == 0 {
					t.holdLeft = 2 + int(h>>3)%24
				}
			}
			if t.holdLeft > 0 {
				others := false
				for _, o := range tasks {
					others = others || (o != t && !o.done && !o.blocked)
				}
				if others {
					t.holdLeft--
					logf("w%d hold t%d\n", res.stats.Windows, t.id)
					continue
				}
			}
			t.holdDecided, t.holdLeft = false, 0
		}

		// Step faults due now: fired from this goroutine while the task is
		// parked, i.e. asynchronously with respect to the executor.
		for _, t := range members {
			ev := t.cur
			if ev.kind != parkStep {
				continue
			}
			if f := ev.st.fault; f != nil && f.Model == "step" && f.K == ev.step && !ev.st.fired {
				ev.st.fire()
				logf("w%d fault t%d op%d step%d %s/%s\n", res.stats.Windows, t.id, ev.op, ev.step, ev.st.kind, f.Err)
			}
		}

		// Release the window and wait for every member to park again.
		// Release and collect are the only synchronisation: they order
		// windows, not the members of one window.
		if instrBuild && sc.Mode == "interleave" && len(members) == 1 {
			currentTask = members[0]
		}
		for _, t := range members {
			close(t.cur.release)
		}
		for _, t := range members {
			collect(t)
		}
		currentTask = nil
		pollBlocked()
		parked := members[:0:0]
		for _, t := range members {
			if t.blocked {
				logf("w%d t%d blocked inside the library\n", res.stats.Windows, t.id)
			} else {
				parked = append(parked, t)
			}
		}
		members = parked

		// Event log and reach probes.
		logf("w%d", res.stats.Windows)
		for _, t := range members {
			ev := t.cur
			switch ev.kind {
			case parkStep:
				logf(" t%d:op%d:s%d:%s", t.id, ev.op, ev.step, ev.node)
				res.stats.Steps++
				if ev.node == "keyvalue" {
					kvSeen = true
				}
			case parkSync:
				logf(" t%d:op%d:sync", t.id, ev.op)
				res.stats.SyncYields++
			case parkBoundary:
				logf(" t%d:op%d:begin", t.id, ev.op)
			case parkDone:
				logf(" t%d:done", t.id)
			}
		}
		logf(" @%d\n", time.Since(t0).Nanoseconds())
		for i := 0; i < len(members); i++ {
			for j := i + 1; j < len(members); j++ {
				a, b := members[i].cur, members[j].cur
				if a.kind != parkStep || b.kind != parkStep {
					continue
				}
				ka, kb := a.node, b.node
				if ka > kb {
					ka, kb = kb, ka
				}
				res.stats.ConcPairs[ka+"|"+kb]++
				if a.st.curNode == b.st.curNode {
					res.stats.SameNodePairs++
				}
			}
		}
		res.stats.Windows++
		tickProgress() // scheduler goroutine only: long scenarios are not hangs
		if res.stats.Steps > maxScenarioSteps {
			panic(harnessf("scenario exceeded %d steps", maxScenarioSteps))
		}
	}
	res.stats.SimSeconds = time.Since(t0).Seconds()
	// What a call returned belongs to its caller: it must still read the
	// same after every other call has finished (no buffer shared with the
	// document or with later calls).
	for _, t := range tasks {
		for oi, o := range t.results {
			if o.ret != nil && o.ret != "noitems" && o.Panic == "" {
				if now := renderValue(o.ret, false); now != o.rawKept {
					res.changed = append(res.changed, changedResult{t.id, oi, o.rawKept, now})
				}
			}
			if o.errObj != nil {
				if now := safeErrorText(o.errObj); now != o.Err {
					res.changed = append(res.changed, changedResult{t.id, oi, "error " + o.Err, "error " + now})
				}
			}
		}
	}
	for _, t := range tasks {
		releaseContexts(t.results)
	}
	for _, t := range tasks {
		if t.panicked != "" {
			panic(harnessf("task %d: %s", t.id, t.panicked))
		}
		res.outcomes = append(res.outcomes, t.results)
		for oi, o := range t.results {
			res.stats.Ops++
			shown := o.Ranked
			if addrDependent(sc.Paths[t.spec.Ops[oi].Path]) {
				// Values derived from keyvalue ids are address distances:
				// stable inside a process (and compared raw there), but
				// not part of the cross-process fingerprint.
				shown = "addr-dependent"
			}
			logf("result t%d op%d %s | %s | %s | %s | polls=%d steps=%d fired=%v\n",
				t.id, oi, shown, o.Err, o.Classes, o.Panic, o.Polls, o.Steps, o.Fired)
		}
	}
	runtime.KeepAlive(ballast)
	return res
}

// noteArrival keeps the scheduler's view of which op a task has in flight.
func (w *world) noteArrival(t *task, res *runResult) {
	switch t.cur.kind {
	case parkDone:
		t.done = true
		t.inFlight = nil
	case parkBoundary:
		op := t.spec.Ops[t.cur.op]
		t.inFlight = &op
	}
}

// clockBusy reports whether some in-flight op must not see the clock move.
func (w *world) clockBusy(tasks []*task) bool {
	for _, t := range tasks {
		if t.done || t.inFlight == nil {
			continue
		}
		o := t.inFlight
		if o.ZoneSensitive() {
			return true
		}
		if o.Fault != nil && o.Fault.Err == "deadline" && o.Ctx == "deadline" {
			return true
		}
	}
	return false
}

func (w *world) crossesDST(a, b time.Time) bool {
	for name, loc := range w.zones {
		if loc == nil || name == "" || name == "UTC" || name[0] == '+' || name[0] == '-' {
			continue
		}
		_, oa := a.In(loc).Zone()
		_, ob := b.In(loc).Zone()
		if oa != ob {
			return true
		}
	}
	return false
}

func (w *world) taskMain(t *task) {
	defer func() {
		if r := recover(); r != nil {
			// execOp recovers executor panics; whatever arrives here is
			// harness trouble. Surface it on the scheduler side.
			t.panicked = fmt.Sprint(r)
		}
		t.parkCh <- parkEvent{kind: parkDone}
	}()
	for i, op := range t.spec.Ops {
		t.opIdx = i
		t.yield(parkEvent{kind: parkBoundary})
		t.results = append(t.results, w.execOp(op, t, false))
	}
}

// addrDependent reports whether a path can turn keyvalue ids (address
// distances) into plain values, which no rank normalisation can follow.
func addrDependent(pathText string) bool {
	if !strings.Contains(pathText, "keyvalue") {
		return false
	}
	return strings.Contains(pathText, "id") || strings.Contains(pathText, "*")
}

// nativeVars rewrites the top-level values of a decoded variables map into
// the Go types a caller building the map by hand would use.
func nativeVars(m map[string]any) {
	n := 0
	for _, k := range sortedKeys(m) {
		n++
		switch v := m[k].(type) {
		case string:
			// A caller-built datetime value (constructed, not parsed by the library).
			if tt, err := time.Parse(time.RFC3339, v); err == nil {
				m[k] = types.NewTimestampTZ(context.Background(), tt)
			}
		case float64:
			if v == float64(int(v)) {
				if n%2 == 0 {
					m[k] = int(v)
				} else {
					m[k] = int32(v)
				}
			} else {
				m[k] = float32(v)
			}
		case map[string]any:
			strs := map[string]string{}
			for kk, e := range v {
				if s, ok := e.(string); ok {
					strs[kk] = s
				}
			}
			if len(strs) == len(v) && len(v) > 0 {
				m[k] = strs
			} else {
				m[k] = exec.Vars(v)
			}
		case []any:
			if len(v) == 0 {
				continue
			}
			var strs []string
			var ints []int
			var floats []float64
			var bools []bool
			for _, e := range v {
				switch e := e.(type) {
				case string:
					strs = append(strs, e)
				case bool:
					bools = append(bools, e)
				case float64:
					floats = append(floats, e)
					if e == float64(int(e)) {
						ints = append(ints, int(e))
					}
				}
			}
			switch {
			case len(strs) == len(v):
				m[k] = strs
			case len(bools) == len(v):
				m[k] = bools
			case len(ints) == len(v) && n%2 == 0:
				m[k] = ints
			case len(ints) == len(v):
				i64 := make([]int64, len(ints))
				for i, x := range ints {
					i64[i] = int64(x)
				}
				m[k] = i64
			case len(floats) == len(v):
				m[k] = floats
			}
		}
	}
}

func sortedKeys(m map[string]any) []string {
	keys := make([]string, 0, len(m))
	for k := range m {
		keys = append(keys, k)
	}
	sort.Strings(keys)
	return keys
}

// textualWild reports whether the path text spells a member wildcard.
func textualWild(text string) bool {
	// Drop string literals (regex patterns may contain ".*").
	var sb strings.Builder
	in := false
	for i := 0; i < len(text); i++ {
		c := text[i]
		switch {
		case in && c == '\\' && i+1 < len(text):
			i++
		case c == '"':
			in = !in
		case !in:
			sb.WriteByte(c)
		}
	}
	return strings.Contains(sb.String(), ".*")
}

// uniformScalars reports whether every member of m is the same scalar value.
func uniformScalars(m map[string]any) bool {
	first := true
	var ref string
	for _, e := range m {
		switch e.(type) {
		case map[string]any, []any:
			return false
		}
		r := renderValue(e, false)
		if first {
			ref, first = r, false
		} else if r != ref {
			return false
		}
	}
	return true
}

func renderItems(items []any, ranked bool) string {
	if items == nil {
		return "<nil>"
	}
	return renderValue(items, ranked)
}

func errSuffix(err error) string {
	if err == nil {
		return ""
	}
	return " err=" + err.Error()
}

func deepCopy(v any) any {
	switch v := v.(type) {
	case map[string]any:
		m := make(map[string]any, len(v))
		for k, e := range v {
			m[k] = deepCopy(e)
		}
		return m
	case []any:
		a := make([]any, len(v))
		for i, e := range v {
			a[i] = deepCopy(e)
		}
		return a
	}
	return v
}

// rekey renames, in place, the keys of every object that is wide (8 or more
// members) or holds only scalars: k becomes k+"_". Objects keep their
// identity and their size.
func rekey(v any) {
	switch v := v.(type) {
	case map[string]any:
		leaf := true
		for _, e := range v {
			switch e.(type) {
			case map[string]any, []any:
				leaf = false
			}
			rekey(e)
		}
		if leaf || len(v) >= 8 {
			keys := make([]string, 0, len(v))
			for k := range v {
				keys = append(keys, k)
			}
			sort.Strings(keys)
			vals := make([]any, len(keys))
			for i, k := range keys {
				vals[i] = v[k]
				delete(v, k)
			}
			for i, k := range keys {
				v[k+"_"] = vals[i]
			}
		}
	case []any:
		for _, e := range v {
			rekey(e)
		}
	}
}

// churnGroups are sibling path texts that differ only in a literal argument,
// each with a document on which the siblings give different results.
var churnGroups = []struct {
	doc   string
	texts []string
}{
	{`3.14159`, []string{`$.decimal(10,2)`, `$.decimal(10,0)`, `$.decimal(5,1)`, `$.decimal(10,4)`}},
	{`"12:34:56.789123"`, []string{`$.time(0)`, `$.time(3)`, `$.time(6)`, `$.time(1)`}},
	{`"2015-08-02T12:34:56.789123+02:00"`, []string{`$.timestamp_tz(0)`, `$.timestamp_tz(2)`, `$.timestamp_tz(5)`}},
	{`[10,20,30,40]`, []string{`$[0]`, `$[1]`, `$[2]`, `$[1 to 2]`, `$[last]`}},
	{`"abc"`, []string{`$ like_regex "^a"`, `$ like_regex "^b"`, `$ like_regex "^A" flag "i"`, `$ like_regex "c$"`}},
	{`{"a":1,"b":2,"c":3}`, []string{`$.a`, `$.b`, `$.c`, `$.a + $.b`}},
	{`5`, []string{`$ + 1`, `$ + 2`, `$ * 3`, `$ - 1`, `$ == 5`, `$ == 6`}},
	{`"abc"`, []string{`$ starts with "a"`, `$ starts with "b"`, `$ == "abc"`, `$ == "abd"`}},
}

// churn is the parse-use-drop loop of a server that parses a path per
// request: sibling texts are parsed afresh over and over, queried and
// dropped, with collections in between, so that new AST nodes land on the
// addresses of dead ones. Every result must be the one its own text gives
// on a long-lived Path. (A cache keyed by node address, a ring that never
// unmaps, a finalizer that lags behind the allocator show up here.)
func churn(seed int) (summary string, mismatch string) {
	ctx := context.Background()
	type ref struct {
		p    *path.Path
		doc  any
		want string
	}
	var refs [][]ref
	for _, g := range churnGroups {
		doc, err := decodeJSON(DocSpec{JSON: g.doc})
		if err != nil {
			panic(harnessf("churn doc: %v", err))
		}
		var rs []ref
		for _, txt := range g.texts {
			p, err := path.Parse(txt)
			if err != nil {
				panic(harnessf("churn path %q: %v", txt, err))
			}
			items, qerr := p.Query(ctx, doc, exec.WithTZ())
			rs = append(rs, ref{p, doc, renderItems(items, true) + errSuffix(qerr)})
		}
		refs = append(refs, rs)
	}
	rounds := 12
	for r := 0; r < rounds && mismatch == ""; r++ {
		for gi, g := range churnGroups {
			for ti := range g.texts {
				// rotate so that consecutive fresh nodes belong to different texts
				k := (ti + r + seed) % len(g.texts)
				p, err := path.Parse(g.texts[k])
				if err != nil {
					panic(harnessf("churn path %q: %v", g.texts[k], err))
				}
				items, qerr := p.Query(ctx, refs[gi][k].doc, exec.WithTZ())
				if got := renderItems(items, true) + errSuffix(qerr); got != refs[gi][k].want && mismatch == "" {
					mismatch = fmt.Sprintf("a freshly parsed %q returned %s, the long-lived Path for the same text returned %s (round %d of a parse-use-drop loop)",
						g.texts[k], got, refs[gi][k].want, r)
				}
			}
		}
		if r%4 == 3 {
			runtime.GC()
		}
	}
	// The long-lived Paths must still answer as they did.
	for gi := range refs {
		for _, rf := range refs[gi] {
			items, qerr := rf.p.Query(ctx, rf.doc, exec.WithTZ())
			if got := renderItems(items, true) + errSuffix(qerr); got != rf.want && mismatch == "" {
				mismatch = fmt.Sprintf("the long-lived Path %q returned %s before a parse-use-drop loop over its sibling texts and %s after it", rf.p.String(), rf.want, got)
			}
		}
	}
	return fmt.Sprintf("churn: %d rounds", rounds), mismatch
}

// bumpVars changes, in place, the top-level scalar values of a variables map
// (numbers + 1, strings + "_"): same map, same keys, new values.
func bumpVars(vars exec.Vars) {
	for k, v := range vars {
		switch v := v.(type) {
		case float64:
			vars[k] = v + 1
		case json.Number:
			if f, err := v.Float64(); err == nil {
				vars[k] = json.Number(strconv.FormatFloat(f+1, 'g', -1, 64))
			}
		case string:
			vars[k] = v + "_"
		}
	}
}

// integralToInt64 rewrites integral float64 values (within the exact range)
// as int64, which the library accepts alongside float64 and json.Number.
func integralToInt64(v any) any {
	switch v := v.(type) {
	case float64:
		if v == float64(int64(v)) && v > -1e15 && v < 1e15 {
			return int64(v)
		}
	case []any:
		for i, e := range v {
			v[i] = integralToInt64(e)
		}
	case map[string]any:
		for k, e := range v {
			v[k] = integralToInt64(e)
		}
	}
	return v
}
