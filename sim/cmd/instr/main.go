// Command instr writes an instrumented scratch copy of theory/sqljson in
// which every statement that performs a synchronisation operation (sync/atomic,
// sync.Map, sync.Pool, sync.Once) is preceded by a call to verifsync.Point(),
// a cooperative yield point for the simulator's interleave mode. Files that
// import neither "sync" nor "sync/atomic" are copied unchanged, so on a tree
// without synchronisation (the unchanged library) there are zero sites.
//
// usage: instr <repo root> <destination dir>; prints the number of sites.
package main

import (
	"bytes"
	"fmt"
	"go/ast"
	"go/format"
	"go/parser"
	"go/token"
	"io/fs"
	"os"
	"path/filepath"
	"strconv"
	"strings"
)

const pkgPath = "github.com/theory/sqljson/path/verifsync"

var syncMethods = map[string]bool{
	"Load": true, "Store": true, "Add": true, "Swap": true, "CompareAndSwap": true, "And": true, "Or": true,
	"LoadOrStore": true, "LoadAndDelete": true, "CompareAndDelete": true, "Delete": true, "Range": true, "Clear": true,
	"Get": true, "Put": true, "Do": true,
}

func main() {
	if len(os.Args) != 3 {
		fmt.Fprintln(os.Stderr, "usage: instr <repo> <dst>")
		os.Exit(2)
	}
	src, dst := os.Args[1], os.Args[2]
	sites := 0
	for _, f := range []string{"go.mod", "go.sum"} {
		data, err := os.ReadFile(filepath.Join(src, f))
		check(err)
		check(os.MkdirAll(dst, 0o755))
		check(os.WriteFile(filepath.Join(dst, f), data, 0o644))
	}
	err := filepath.WalkDir(filepath.Join(src, "path"), func(p string, d fs.DirEntry, err error) error {
		if err != nil {
			return err
		}
		rel, _ := filepath.Rel(src, p)
		if d.IsDir() {
			return os.MkdirAll(filepath.Join(dst, rel), 0o755)
		}
		if !strings.HasSuffix(p, ".go") || strings.HasSuffix(p, "_test.go") {
			return nil
		}
		data, err := os.ReadFile(p)
		if err != nil {
			return err
		}
		out, n, err := instrument(p, data)
		if err != nil {
			return fmt.Errorf("%s: %w", p, err)
		}
		sites += n
		return os.WriteFile(filepath.Join(dst, rel), out, 0o644)
	})
	check(err)
	check(os.MkdirAll(filepath.Join(dst, "path", "verifsync"), 0o755))
	check(os.WriteFile(filepath.Join(dst, "path", "verifsync", "verifsync.go"), []byte(`// Package verifsync exists only in the simulator's instrumented scratch copy.
package verifsync

// Yield, when set, is called before every statement that performs a
// synchronisation operation, unless the caller holds a lock.
var Yield func()

// depth counts the locks the running task holds. Only one task runs at a
// time in the mode that uses this package, and a task never yields while it
// holds a lock, so one counter serves all tasks.
var depth int

// Locked and Unlocked bracket critical sections.
func Locked() { depth++ }

func Unlocked() {
	if depth > 0 {
		depth--
	}
}

// Point is the inserted yield point.
func Point() {
	if Yield != nil && depth == 0 {
		Yield()
	}
}
`), 0o644))
	fmt.Println(sites)
}

func check(err error) {
	if err != nil {
		fmt.Fprintln(os.Stderr, "instr:", err)
		os.Exit(2)
	}
}

func instrument(name string, data []byte) ([]byte, int, error) {
	fset := token.NewFileSet()
	f, err := parser.ParseFile(fset, name, data, parser.ParseComments)
	if err != nil {
		return nil, 0, err
	}
	usesSync := false
	for _, im := range f.Imports {
		if p, _ := strconv.Unquote(im.Path.Value); p == "sync" || p == "sync/atomic" {
			usesSync = true
		}
	}
	if !usesSync {
		return data, 0, nil
	}
	in := &instr{}
	for _, d := range f.Decls {
		if fd, ok := d.(*ast.FuncDecl); ok && fd.Body != nil {
			in.block(fd.Body)
		}
	}
	if in.sites == 0 {
		return data, 0, nil
	}
	imp := &ast.GenDecl{Tok: token.IMPORT, Specs: []ast.Spec{&ast.ImportSpec{
		Name: ast.NewIdent("verifsync"), Path: &ast.BasicLit{Kind: token.STRING, Value: strconv.Quote(pkgPath)}}}}
	f.Decls = append([]ast.Decl{imp}, f.Decls...)
	var buf bytes.Buffer
	if err := format.Node(&buf, fset, f); err != nil {
		return nil, 0, err
	}
	return buf.Bytes(), in.sites, nil
}

type instr struct{ sites, tmp int }

func yieldStmt() ast.Stmt {
	return &ast.ExprStmt{X: &ast.CallExpr{Fun: &ast.SelectorExpr{X: ast.NewIdent("verifsync"), Sel: ast.NewIdent("Point")}}}
}

// block rewrites the statement list of b in place.
func (in *instr) block(b *ast.BlockStmt) {
	if b == nil {
		return
	}
	b.List = in.list(b.List)
}

func (in *instr) list(list []ast.Stmt) []ast.Stmt {
	var out []ast.Stmt
	for _, st := range list {
		in.nested(st)
		switch lockKind(st) {
		case "lock":
			// A yield before taking a lock (never while holding one), then
			// note that one is held.
			out = append(out, yieldStmt(), st, callStmt("Locked"))
			in.sites++
			continue
		case "unlock":
			out = append(out, callStmt("Unlocked"), st)
			continue
		case "deferunlock":
			d := st.(*ast.DeferStmt)
			out = append(out, &ast.DeferStmt{Call: &ast.CallExpr{Fun: &ast.FuncLit{
				Type: &ast.FuncType{Params: &ast.FieldList{}},
				Body: &ast.BlockStmt{List: []ast.Stmt{callStmt("Unlocked"), &ast.ExprStmt{X: d.Call}}},
			}}})
			continue
		}
		if d, ok := st.(*ast.DeferStmt); ok && isPut(d.Call) {
			// defer pool.Put(x): the argument is evaluated now, as defer
			// does; when the deferred call runs it is bracketed by yields,
			// so that another task can take the released object while this
			// one is still on its way out (use after release).
			in.tmp++
			name := fmt.Sprintf("verifDeferArg%d", in.tmp)
			call := *d.Call
			arg := call.Args[0]
			call.Args = []ast.Expr{ast.NewIdent(name)}
			out = append(out,
				&ast.AssignStmt{Lhs: []ast.Expr{ast.NewIdent(name)}, Tok: token.DEFINE, Rhs: []ast.Expr{arg}},
				&ast.DeferStmt{Call: &ast.CallExpr{Fun: &ast.FuncLit{
					Type: &ast.FuncType{Params: &ast.FieldList{}},
					Body: &ast.BlockStmt{List: []ast.Stmt{yieldStmt(), &ast.ExprStmt{X: &call}, yieldStmt()}},
				}}})
			in.sites++
			continue
		}
		if in.header(st) {
			out = append(out, yieldStmt())
			in.sites++
		}
		out = append(out, st)
		if es, ok := st.(*ast.ExprStmt); ok {
			if c, ok := es.X.(*ast.CallExpr); ok && isPut(c) {
				// ... and a yield after a plain Put, for the same reason.
				out = append(out, yieldStmt())
			}
		}
	}
	return out
}

// isPut recognises x.Put(v) on a value (sync.Pool and look-alikes).
func isPut(c *ast.CallExpr) bool {
	sel, ok := c.Fun.(*ast.SelectorExpr)
	if !ok || sel.Sel.Name != "Put" || len(c.Args) != 1 {
		return false
	}
	if id, ok := sel.X.(*ast.Ident); ok && isPkgName(id.Name) {
		return false
	}
	return true
}

func callStmt(name string) ast.Stmt {
	return &ast.ExprStmt{X: &ast.CallExpr{Fun: &ast.SelectorExpr{X: ast.NewIdent("verifsync"), Sel: ast.NewIdent(name)}}}
}

// lockKind classifies statements that are exactly one lock or unlock call.
func lockKind(st ast.Stmt) string {
	name := func(c *ast.CallExpr) string {
		if sel, ok := c.Fun.(*ast.SelectorExpr); ok && len(c.Args) == 0 {
			return sel.Sel.Name
		}
		return ""
	}
	switch s := st.(type) {
	case *ast.ExprStmt:
		if c, ok := s.X.(*ast.CallExpr); ok {
			switch name(c) {
			case "Lock", "RLock":
				return "lock"
			case "Unlock", "RUnlock":
				return "unlock"
			}
		}
	case *ast.DeferStmt:
		switch name(s.Call) {
		case "Unlock", "RUnlock":
			return "deferunlock"
		}
	}
	return ""
}

// nested instruments the blocks inside st (and function literals anywhere in it).
func (in *instr) nested(st ast.Stmt) {
	switch s := st.(type) {
	case *ast.BlockStmt:
		in.block(s)
	case *ast.IfStmt:
		in.block(s.Body)
		if s.Else != nil {
			in.nested(s.Else)
		}
	case *ast.ForStmt:
		in.block(s.Body)
	case *ast.RangeStmt:
		in.block(s.Body)
	case *ast.SwitchStmt:
		in.block(s.Body)
	case *ast.TypeSwitchStmt:
		in.block(s.Body)
	case *ast.SelectStmt:
		in.block(s.Body)
	case *ast.CaseClause:
		s.Body = in.list(s.Body)
	case *ast.CommClause:
		s.Body = in.list(s.Body)
	case *ast.LabeledStmt:
		in.nested(s.Stmt)
	}
	// Function literals in the statement's own expressions.
	for _, e := range ownExprs(st) {
		ast.Inspect(e, func(n ast.Node) bool {
			if fl, ok := n.(*ast.FuncLit); ok {
				in.block(fl.Body)
				return false
			}
			return true
		})
	}
}

// ownExprs lists the expressions evaluated by st itself (not by nested blocks).
func ownExprs(st ast.Stmt) []ast.Node {
	var out []ast.Node
	add := func(n ast.Node) {
		if n != nil && !isNil(n) {
			out = append(out, n)
		}
	}
	switch s := st.(type) {
	case *ast.ExprStmt:
		add(s.X)
	case *ast.AssignStmt:
		for _, e := range s.Lhs {
			add(e)
		}
		for _, e := range s.Rhs {
			add(e)
		}
	case *ast.ReturnStmt:
		for _, e := range s.Results {
			add(e)
		}
	case *ast.IncDecStmt:
		add(s.X)
	case *ast.SendStmt:
		add(s.Chan)
		add(s.Value)
	case *ast.DeclStmt:
		add(s.Decl)
	case *ast.IfStmt:
		if s.Init != nil {
			out = append(out, ownExprs(s.Init)...)
		}
		add(s.Cond)
	case *ast.ForStmt:
		if s.Init != nil {
			out = append(out, ownExprs(s.Init)...)
		}
		if s.Cond != nil {
			add(s.Cond)
		}
	case *ast.RangeStmt:
		add(s.X)
	case *ast.SwitchStmt:
		if s.Init != nil {
			out = append(out, ownExprs(s.Init)...)
		}
		if s.Tag != nil {
			add(s.Tag)
		}
	case *ast.TypeSwitchStmt:
		if s.Init != nil {
			out = append(out, ownExprs(s.Init)...)
		}
	case *ast.DeferStmt:
		// arguments are evaluated now, the call later: only function literals matter
		add(s.Call)
	case *ast.GoStmt:
		add(s.Call)
	}
	return out
}

func isNil(n ast.Node) bool {
	switch v := n.(type) {
	case ast.Expr:
		return v == nil
	case ast.Decl:
		return v == nil
	}
	return false
}

// header reports whether st itself performs a synchronisation operation.
func (in *instr) header(st ast.Stmt) bool {
	switch st.(type) {
	case *ast.DeferStmt, *ast.GoStmt:
		return false
	}
	found := false
	for _, e := range ownExprs(st) {
		ast.Inspect(e, func(n ast.Node) bool {
			switch c := n.(type) {
			case *ast.FuncLit:
				return false
			case *ast.CallExpr:
				if sel, ok := c.Fun.(*ast.SelectorExpr); ok {
					if id, ok := sel.X.(*ast.Ident); ok && id.Name == "atomic" {
						found = true
					} else if syncMethods[sel.Sel.Name] {
						if id, ok := sel.X.(*ast.Ident); !ok || !isPkgName(id.Name) {
							found = true
						}
					}
				}
			}
			return true
		})
	}
	return found
}

// isPkgName filters selector bases that are plainly packages, not values.
func isPkgName(name string) bool {
	switch name {
	case "strings", "fmt", "slices", "maps", "time", "math", "strconv", "errors", "regexp", "sort", "bytes", "reflect", "json", "context", "types", "ast", "parser", "exec":
		return true
	}
	return false
}
