package sim

import (
	"fmt"
	"testing"
	"time"
)

// C20Case is one operation whose every crash point is enumerated.
type C20Case struct {
	Path   string
	Doc    DocSpec
	Vars   *DocSpec
	Kind   string
	Silent bool
	TZ     bool
	Zone   string
	Ctx    string
	Err    string
	Via    string // "", "new", "exec"
	Origin string // "curated", "generated", "scaling"
}

func (c C20Case) scenario(f *Fault) *Scenario {
	sc := &Scenario{
		Version: 1, Property: "C20", Mode: "interleave", Start: "2010-06-15T10:00:00Z",
		Paths: []string{c.Path}, Docs: []DocSpec{c.Doc},
		Note: "C20 enumeration case (" + c.Origin + ")",
	}
	op := OpSpec{Kind: c.Kind, Path: 0, Doc: 0, Vars: -1, Silent: c.Silent, TZ: c.TZ, Zone: c.Zone, Ctx: c.Ctx, Fault: f, Via: c.Via}
	if c.Vars != nil {
		sc.Vars = []DocSpec{*c.Vars}
		op.Vars = 0
	}
	sc.Tasks = []TaskSpec{{Ops: []OpSpec{op}}}
	return sc
}

var c20Variants = []struct{ Ctx, Err string }{
	{"", "canceled"}, {"cancel", "canceled"}, {"deadline", "deadline"}, {"parent", "canceled"}, {"", "deadline"}, {"cause", "canceled"}, {"farcancel", "canceled"},
}

var c20Kinds = []string{"query", "first", "exists", "match", "existsormatch"}

var c20Zones = []string{"", "UTC", "America/New_York", "+05:30"}

func groupIn(g string, groups []string) bool {
	for _, x := range groups {
		if x == g {
			return true
		}
	}
	return false
}

// CuratedC20Cases lists the curated enumeration pool: each (path, home doc,
// entry point, silent) with every context variant; the thorough tier adds,
// for each path, every other compatible document with one rotating variant.
func CuratedC20Cases(thorough bool) []C20Case {
	var cases []C20Case
	rot := 0
	for pi, p := range poolPaths {
		info := poolPathInfo[pi]
		for di, d := range poolDocs {
			if (info.wild && !poolDocSafe[di]) || d.NoEnum {
				continue
			}
			home := groupIn(d.Group, p.Groups)
			if !home && !thorough {
				continue
			}
			for _, kind := range c20Kinds {
				for _, silent := range []bool{false, true} {
					variants := c20Variants
					if !home {
						variants = c20Variants[rot%len(c20Variants) : rot%len(c20Variants)+1]
					}
					for _, v := range variants {
						rot++
						c := C20Case{
							Path: p.Text, Doc: DocSpec{JSON: d.JSON, Number: rot%5 == 0}, Kind: kind, Silent: silent,
							TZ: rot%3 != 0, Zone: c20Zones[rot%len(c20Zones)], Ctx: v.Ctx, Err: v.Err, Origin: "curated",
							Via: []string{"", "", "exec", "new"}[(rot/7)%4],
						}
						vi := rot % len(poolVars)
						if info.wild && !poolVarSafe[vi] {
							vi = 1
						}
						if info.needsVar || rot%4 == 0 {
							c.Vars = &DocSpec{JSON: poolVars[vi]}
							if info.needsVar && rot%7 != 0 {
								c.Vars = &DocSpec{JSON: poolVars[0]}
							}
						}
						cases = append(cases, c)
					}
				}
			}
		}
	}
	return cases
}

// ScalingC20Cases: the same paths over arrays/trees of growing size,
// cancelled early, so that continuation that grows with the data exceeds the
// document-independent bound of C20.bounded.
func ScalingC20Cases(sizes []int) []C20Case {
	var cases []C20Case
	paths := []string{
		`$[*]`, `$[*] ? (@ > 2)`, `$[*].a`, `$[*] ? (@.a > 1)`, `$[*] ? (exists(@.a))`, `$[*] ? ((@.a > 1) is unknown)`,
		`$.**`, `$.** ? (@ == 3)`, `$[*] + 1`, `-$[*]`, `$[*].double()`, `$[*].keyvalue()`, `$[0 to last]`, `strict $[*].a`,
		`$[*] > 0`, `exists($[*] ? (@.a > 100000))`, `$[*].a.size()`, `$[*] ? (@.a like_regex "x")`,
	}
	objPaths := []string{
		`$.keyvalue().key`, `$.keyvalue().value`, `$.keyvalue() ? (@.value > 0).key`, `$.*`, `$.* ? (@ > 0)`, `$.**`,
		`$.**{1} ? (@ == 1)`, `strict $.*`, `$.*.double()`, `exists($.* ? (@ > 5))`, `$.keyvalue().value + 1`, `$.* + 1`,
	}
	for _, n := range sizes {
		// One large object whose members all hold the same scalar: member
		// order cannot change the execution (DESIGN 3.6).
		obj := make([]byte, 0, n*10)
		obj = append(obj, '{')
		for i := 0; i < n; i++ {
			if i > 0 {
				obj = append(obj, ',')
			}
			obj = append(obj, fmt.Sprintf(`"k%04d":1`, i)...)
		}
		obj = append(obj, '}')
		for pi, p := range objPaths {
			for ki, kind := range c20Kinds {
				v := c20Variants[(pi+ki)%len(c20Variants)]
				cases = append(cases, C20Case{Path: p, Doc: DocSpec{JSON: string(obj)}, Kind: kind,
					Silent: (pi+ki)%2 == 1, Ctx: v.Ctx, Err: v.Err, Origin: fmt.Sprintf("scaling-object-%d", n)})
			}
		}
	}
	for _, n := range sizes {
		flat := make([]byte, 0, n*8)
		flat = append(flat, '[')
		for i := 0; i < n; i++ {
			if i > 0 {
				flat = append(flat, ',')
			}
			flat = append(flat, fmt.Sprintf(`{"a":%d}`, i)...)
		}
		flat = append(flat, ']')
		for pi, p := range paths {
			for ki, kind := range c20Kinds {
				v := c20Variants[(pi+ki)%len(c20Variants)]
				cases = append(cases, C20Case{Path: p, Doc: DocSpec{JSON: string(flat)}, Kind: kind,
					Silent: (pi+ki)%2 == 0, Ctx: v.Ctx, Err: v.Err, Origin: fmt.Sprintf("scaling-%d", n)})
			}
		}
	}
	return cases
}

// GeneratedC20Case draws a random (path, document, options) case.
func GeneratedC20Case(seed uint64) C20Case {
	g := &gen{r: newRNG(seed, 2)}
	wild := g.chance(0.3)
	var p string
	if g.chance(0.7) {
		p = g.randomPath(wild)
	}
	if p == "" {
		for {
			i := g.r.IntN(len(poolPaths))
			if poolPathInfo[i].wild && !wild {
				continue
			}
			p = poolPaths[i].Text
			break
		}
	}
	var doc string
	if g.chance(0.6) {
		doc = g.randomDoc(3, wild)
	} else {
		for {
			i := g.r.IntN(len(poolDocs))
			if (wild && !poolDocSafe[i]) || poolDocs[i].NoGen || poolDocs[i].NoEnum {
				continue
			}
			doc = poolDocs[i].JSON
			break
		}
	}
	v := c20Variants[g.r.IntN(len(c20Variants))]
	c := C20Case{Path: p, Doc: DocSpec{JSON: doc, Number: g.chance(0.3)}, Kind: c20Kinds[g.r.IntN(len(c20Kinds))],
		Silent: g.chance(0.5), TZ: g.chance(0.5), Zone: genZones[g.r.IntN(len(genZones))], Ctx: v.Ctx, Err: v.Err, Origin: "generated"}
	if g.chance(0.7) {
		for {
			i := g.r.IntN(len(poolVars))
			if wild && !poolVarSafe[i] {
				continue
			}
			c.Vars = &DocSpec{JSON: poolVars[i], Number: g.chance(0.3)}
			break
		}
	}
	return c
}

// C20Finding is one violating (case, fault).
type C20Finding struct {
	Scenario *Scenario
	Report   *Report
}

// EnumStats counts what an enumeration covered.
type EnumStats struct {
	Cases        int
	Sampled      int // cases whose crash points were sampled rather than enumerated
	Executions   int // faulted executions
	Observable   int // distinct (case, model, k) at which the fault fired observably
	Unobservable int
	MaxAfter     int
	Stats        *RunStats
}

// EnumerateC20 runs c uncancelled, then with the context becoming done at
// every poll index (M1) and, from the scheduler goroutine, at every step
// index (M2). every>1 samples every n-th index beyond the first 64 (used
// for the large scaling documents).
func EnumerateC20(t *testing.T, c C20Case, every int, es *EnumStats) ([]C20Finding, error) {
	sc := c.scenario(nil)
	w, err := buildWorld(sc)
	if err != nil {
		return nil, err
	}
	op := sc.Tasks[0].Ops[0]
	r0 := opRef{0, 0}
	var ref *Outcome
	if err := bubble(t, func() {
		if d := time.Until(w.startAt); d > 0 {
			time.Sleep(d)
		}
		ref = w.execOp(op, nil, true)
		releaseContexts([]*Outcome{ref})
	}); err != nil {
		return nil, err
	}
	es.Cases++
	// A generated path can be quadratic or worse in the document: beyond a
	// few thousand crash points, enumerate every index below 64, the last
	// eight and an even sample in between (as for the scaling family).
	if n := ref.Polls + ref.Steps; every <= 1 && n > 4000 {
		every = n / 2000
	}
	if every > 1 {
		es.Sampled++
	}
	var findings []C20Finding
	try := func(f Fault) error {
		fc := f
		sc.Tasks[0].Ops[0].Fault = &fc
		var run *runResult
		if err := bubble(t, func() { run = w.runConcurrent() }); err != nil {
			return err
		}
		es.Executions++
		got := run.outcomes[0][0]
		rep := &Report{Property: "C20", Mode: sc.Mode, Stats: run.stats, Fingerprint: run.fingerprint()}
		add := func(clause string, r opRef, format string, a ...any) {
			rep.Violations = append(rep.Violations, Violation{Clause: clause, Task: r.task, Op: r.op, Detail: fmt.Sprintf(format, a...)})
		}
		fop := sc.Tasks[0].Ops[0]
		desc := fmt.Sprintf("%s %q doc=%s silent=%v tz=%v zone=%s ctx=%s fault=%s@%d/%s", fop.Kind, c.Path, clip(c.Doc.JSON, 120), fop.Silent, fop.TZ, fop.Zone, fop.Ctx, f.Model, f.K, f.Err)
		judgeC20(add, r0, desc, fop, got, ref, len(c.Path))
		w.checkImmutable(rep, "C20.intact")
		if got.Observable {
			es.Observable++
			es.Stats.FireStacks[got.FireStack]++
			es.Stats.FaultsFired[f.Model+"/"+fop.Ctx+"/"+f.Err]++
			if got.StepsAfter > es.MaxAfter {
				es.MaxAfter = got.StepsAfter
			}
			if got.PollsAfter > es.MaxAfter {
				es.MaxAfter = got.PollsAfter
			}
		} else {
			es.Unobservable++
		}
		for k, n := range got.nodeKinds {
			es.Stats.NodeKinds[k] += n
		}
		es.Stats.Steps += run.stats.Steps
		es.Stats.Windows += run.stats.Windows
		es.Stats.SimSeconds += run.stats.SimSeconds
		if len(rep.Violations) > 0 {
			cp := *sc
			cp.Tasks = []TaskSpec{{Ops: []OpSpec{fop}}}
			findings = append(findings, C20Finding{Scenario: &cp, Report: rep})
		}
		return nil
	}
	idx := func(n int) []int {
		var out []int
		for i := 0; i < n; i++ {
			if every <= 1 || i < 64 || i%every == 0 || i >= n-8 {
				out = append(out, i)
			}
		}
		return out
	}
	// M0: the context is already done when the entry point is called.
	if err := try(Fault{Model: "pre", K: 0, Err: c.Err}); err != nil {
		return nil, err
	}
	// M1: k = 0..N (k = N never fires: a control for the no-fault path).
	for _, k := range idx(ref.Polls + 1) {
		if err := try(Fault{Model: "poll", K: k, Err: c.Err}); err != nil {
			return nil, err
		}
	}
	// M2: s = 0..S-1.
	for _, s := range idx(ref.Steps) {
		if err := try(Fault{Model: "step", K: s, Err: c.Err}); err != nil {
			return nil, err
		}
	}
	sc.Tasks[0].Ops[0].Fault = nil
	return findings, nil
}

func clip(s string, n int) string {
	if len(s) <= n {
		return s
	}
	return s[:n] + "…"
}
