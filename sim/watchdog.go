package sim

import (
	"fmt"
	"os"
	"regexp"
	"runtime"
	"strconv"
	"strings"
	"sync/atomic"
	"time"
)

// A caller that blocks forever inside the library on a lock (a mutex is not
// "durably blocking" for synctest, so the fake clock cannot notice it) would
// hang the worker. The watchdog runs on real time, outside every bubble:
// when nothing has made progress for SIM_HANG_S seconds it looks at the
// goroutine dump. A goroutine parked in a lock or channel operation whose
// innermost non-runtime frame belongs to the library means the library never
// returned: exit 67 (reported as a violation by the driver). Anything else
// is trouble in the simulator: exit 2.

var progressTicks atomic.Int64

func tickProgress() { progressTicks.Add(1) }

var userFrame = regexp.MustCompile(`^([\w./*()\[\]-]+)\(`)

func startWatchdog() {
	limit := 40 * time.Second
	if s := os.Getenv("SIM_HANG_S"); s != "" {
		if n, err := strconv.Atoi(s); err == nil && n > 0 {
			limit = time.Duration(n) * time.Second
		}
	}
	go func() {
		last, since := progressTicks.Load(), time.Now()
		var looked time.Time
		for {
			time.Sleep(500 * time.Millisecond)
			if cur := progressTicks.Load(); cur != last {
				last, since = cur, time.Now()
				continue
			}
			if time.Since(since) < limit || time.Since(looked) < 5*time.Second {
				continue
			}
			looked = time.Now()
			buf := make([]byte, 4<<20)
			buf = buf[:runtime.Stack(buf, true)]
			if where := blockedInLibrary(string(buf)); where != "" {
				fmt.Fprintf(os.Stderr, "HANG-IN-LIBRARY: no progress for %v; a call never returned: %s\n", limit, where)
				os.Exit(67)
			}
			// Nothing is blocked inside the library: the machine is slow
			// (a worker was once seen 40 s inside open(2) on a loaded
			// disk) or the simulator is stuck. Give it much longer before
			// giving up with an infrastructure exit.
			if time.Since(since) < 8*limit {
				continue
			}
			fmt.Fprintf(os.Stderr, "harness: watchdog: no progress for %v\n%s\n", 8*limit, clipStr(string(buf), 6000))
			os.Exit(2)
		}
	}()
}

func clipStr(s string, n int) string {
	if len(s) > n {
		return s[:n]
	}
	return s
}

// blockedInLibrary returns a description of a goroutine blocked with a
// library frame innermost, or "".
func blockedInLibrary(dump string) string {
	for _, g := range strings.Split(dump, "\n\n") {
		lines := strings.Split(g, "\n")
		if len(lines) < 3 || !strings.HasPrefix(lines[0], "goroutine ") {
			continue
		}
		state := lines[0]
		if !(strings.Contains(state, "sync.Mutex.Lock") || strings.Contains(state, "sync.RWMutex") ||
			strings.Contains(state, "semacquire") || strings.Contains(state, "chan receive") ||
			strings.Contains(state, "chan send") || strings.Contains(state, "select") ||
			strings.Contains(state, "sync.Cond.Wait") || strings.Contains(state, "sync.WaitGroup.Wait")) {
			continue
		}
		for _, l := range lines[1:] {
			m := userFrame.FindStringSubmatch(l)
			if m == nil {
				continue
			}
			fn := m[1]
			if strings.HasPrefix(fn, "runtime.") || strings.HasPrefix(fn, "sync.") || strings.HasPrefix(fn, "internal/") ||
				strings.HasPrefix(fn, "sync/") || strings.HasPrefix(fn, "time.") {
				continue
			}
			if strings.HasPrefix(fn, "github.com/theory/sqljson/") {
				return fn + " [" + state + "]"
			}
			break // innermost user frame is not the library's
		}
	}
	return ""
}
