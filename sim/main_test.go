package sim

import (
	"encoding/json"
	"fmt"
	"hash/fnv"
	"os"
	"strconv"
	"strings"
	"testing"
	"time"

	"github.com/theory/sqljson/path/exec"
)

// The test binary is the simulator's worker process. The driver (/verif/check)
// starts it with -test.run '^TestSim$' and SIM_* environment variables.
//
//	SIM_ROLE     c19 | c20enum | c20gen | replay | witness | fp | dump
//	SIM_FROM/TO  seed (or case index) range, half open
//	SIM_STRIDE   for c20enum: take cases with index % STRIDE == FROM
//	SIM_MODE     interleave | window
//	SIM_TIER     quick | thorough
//	SIM_OUT      summary JSON file
//	SIM_PROGRESS file that always names the scenario being executed
//	SIM_SCENARIO replay: scenario file

// WorkerSummary is what a worker reports to the driver.
type WorkerSummary struct {
	Role         string         `json:"role"`
	Mode         string         `json:"mode,omitempty"`
	From         uint64         `json:"from"`
	To           uint64         `json:"to"`
	Scenarios    int            `json:"scenarios"`
	Ops          int            `json:"ops"`
	Steps        int            `json:"steps"`
	Windows      int            `json:"windows"`
	SimSeconds   float64        `json:"sim_s"`
	Stats        *RunStats      `json:"stats"`
	Fingerprints []string       `json:"fingerprints,omitempty"`
	Seeds        []uint64       `json:"seeds,omitempty"` // parallel to Fingerprints
	LastResults  string         `json:"last_results,omitempty"`
	LastLog      string         `json:"last_log,omitempty"`
	Sentinels    []SentinelMismatch `json:"sentinel_mismatches,omitempty"`
	SentinelsChecked int        `json:"sentinels_checked,omitempty"`
	Cases        int            `json:"cases,omitempty"`
	Sampled      int            `json:"sampled_cases,omitempty"`
	Leftover     int            `json:"leftover_library_goroutines,omitempty"`
	Executions   int            `json:"executions,omitempty"`
	Observable   int            `json:"observable,omitempty"`
	DistinctObs  []uint64       `json:"distinct_obs,omitempty"`
	Unobservable int            `json:"unobservable,omitempty"`
	MaxAfter     int            `json:"max_after,omitempty"`
	Violations   []FoundViolation `json:"violations,omitempty"`
	Samples      []json.RawMessage `json:"samples,omitempty"`
	Known        []string       `json:"known,omitempty"`
	HarnessError string         `json:"harness_error,omitempty"`
	WallS        float64        `json:"wall_s"`
}

// FoundViolation carries the scenario so the driver can minimise and replay.
type FoundViolation struct {
	Seed     uint64    `json:"seed"`
	Scenario *Scenario `json:"scenario"`
	Report   *Report   `json:"report"`
}

func envU(name string, def uint64) uint64 {
	s := os.Getenv(name)
	if s == "" {
		return def
	}
	v, err := strconv.ParseUint(s, 10, 64)
	if err != nil {
		fmt.Fprintf(os.Stderr, "harness: bad %s=%q\n", name, s)
		os.Exit(2)
	}
	return v
}

func mergeStats(dst, src *RunStats) {
	dst.Windows += src.Windows
	dst.Steps += src.Steps
	dst.Ops += src.Ops
	dst.SimSeconds += src.SimSeconds
	dst.SameNodePairs += src.SameNodePairs
	dst.JumpsSkipped += src.JumpsSkipped
	dst.Unobservable += src.Unobservable
	dst.DSTCrossed += src.DSTCrossed
	dst.GCBetweenKV += src.GCBetweenKV
	dst.SyncYields += src.SyncYields
	dst.BlockedInLibrary += src.BlockedInLibrary
	if src.MaxWindow > dst.MaxWindow {
		dst.MaxWindow = src.MaxWindow
	}
	for k, v := range src.FaultsFired {
		dst.FaultsFired[k] += v
	}
	for k, v := range src.ConcPairs {
		dst.ConcPairs[k] += v
	}
	for k, v := range src.FireStacks {
		dst.FireStacks[k] += v
	}
	for k, v := range src.NodeKinds {
		dst.NodeKinds[k] += v
	}
}

func die(code int, format string, a ...any) {
	fmt.Fprintf(os.Stderr, format+"\n", a...)
	os.Exit(code)
}

func writeSummary(sum *WorkerSummary) {
	out := os.Getenv("SIM_OUT")
	data, err := json.Marshal(sum)
	if err != nil {
		die(2, "harness: %v", err)
	}
	if out == "" {
		os.Stdout.Write(append(data, '\n'))
		return
	}
	if err := os.WriteFile(out, data, 0o644); err != nil {
		die(2, "harness: %v", err)
	}
}

func progress(s string) {
	if p := os.Getenv("SIM_PROGRESS"); p != "" {
		_ = os.WriteFile(p, []byte(s), 0o644)
	}
}

func nonASCII(sc *Scenario) bool {
	for _, p := range sc.Paths {
		for i := 0; i < len(p); i++ {
			if p[i] >= 0x80 {
				return true
			}
		}
	}
	return false
}

func resultLines(log string) string {
	var out []string
	for _, l := range strings.Split(log, "\n") {
		if strings.HasPrefix(l, "result ") {
			out = append(out, l)
		}
	}
	return strings.Join(out, "\n")
}

func hashKey(s string) uint64 {
	h := fnv.New64a()
	h.Write([]byte(s))
	return h.Sum64()
}

func TestSim(t *testing.T) {
	role := os.Getenv("SIM_ROLE")
	if role == "" {
		t.Skip("SIM_ROLE not set: this binary is the simulator worker, run it through /verif/check")
	}
	if name, off := time.Now().Zone(); off != 0 {
		die(2, "harness: local time zone must be UTC (TZ=UTC), got %s%+d", name, off)
	}
	exec.VerifStep = stepHook
	startWatchdog()
	// Replay-type roles can run without ever touching the pool or the
	// generator, so that the process history is the scenario alone.
	if os.Getenv("SIM_NOPOOL") == "" || (role != "seq" && role != "replay") {
		if err := InitPool(); err != nil {
			die(2, "%v", err)
		}
	}
	ColdStart = os.Getenv("SIM_COLD") != ""
	if !ColdStart && os.Getenv("SIM_NOPOOL") == "" {
		if mode := os.Getenv("SIM_MODE"); mode == "window" {
			// Different amounts of earlier history in different workers
			// (caches rotate at sizes the simulator does not know).
			preSoak([]int{200, 50, 500, 15, 1200}[(envU("SIM_FROM", 0)/100)%5])
		}
	}
	// The hook must be alive: at least one of a few probe queries has to
	// report evaluation steps (a change may legitimately answer a trivial
	// path without the executor, so no single probe is decisive).
	// (Not in cold-start runs, whose point is that nothing has run before.)
	if !ColdStart {
		steps := 0
		for _, probe := range []C20Case{
			{Path: "$.a", Doc: DocSpec{JSON: `{"a":1}`}, Kind: "query", Err: "canceled"},
			{Path: "$[*] ? (@ > 1)", Doc: DocSpec{JSON: `[1,2,3]`}, Kind: "query", Err: "canceled"},
			{Path: "strict $.a.b + 1", Doc: DocSpec{JSON: `{"a":{"b":1}}`}, Kind: "first", Err: "canceled"},
		} {
			sc := probe.scenario(nil)
			w, err := buildWorld(sc)
			if err != nil {
				die(2, "%v", err)
			}
			var o *Outcome
			if err := bubble(t, func() { o = w.execOp(sc.Tasks[0].Ops[0], nil, true) }); err != nil {
				die(2, "%v", err)
			}
			steps += o.Steps
		}
		if steps == 0 {
			die(2, "harness: step hook self-check failed (no probe query reported an evaluation step): /repo built without -tags verif, or the hook line is missing")
		}
	}
	from, to := envU("SIM_FROM", 0), envU("SIM_TO", 0)
	mode := os.Getenv("SIM_MODE")
	if mode == "" {
		mode = "interleave"
	}
	thorough := os.Getenv("SIM_TIER") == "thorough"
	began := time.Now()
	sum := &WorkerSummary{Role: role, Mode: mode, From: from, To: to, Stats: newRunStats()}
	finish := func() {
		sum.Leftover = int(LeftoverGoroutines.Load())
		sum.WallS = time.Since(began).Seconds()
		sum.Ops, sum.Steps, sum.Windows, sum.SimSeconds = sum.Stats.Ops, sum.Stats.Steps, sum.Stats.Windows, sum.Stats.SimSeconds
		writeSummary(sum)
	}
	harness := func(err error, where string) {
		sum.HarnessError = where + ": " + err.Error()
		finish()
		die(2, "harness trouble in %s: %v", where, err)
	}

	switch role {
	case "c19", "c20gen":
		prop := "C19"
		if role == "c20gen" {
			prop = "C20"
		}
		var sentinels []*sentinel
		if role == "c19" && mode == "interleave" && os.Getenv("SIM_NOPOOL") == "" {
			var err error
			if sentinels, err = startSentinels(t, from/1000+from%7); err != nil {
				harness(err, "sentinels")
			}
		}
		reverse := os.Getenv("SIM_ORDER") == "reverse"
		for i := from; i < to; i++ {
			seed := i
			if reverse {
				// Same seeds, opposite history.
				seed = to - 1 - (i - from)
			}
			// c20gen: even seeds enumerate one generated case fully;
			// odd seeds run one generated multi-task scenario.
			if role == "c20gen" && seed%2 == 0 {
				c := GeneratedC20Case(seed)
				progress("case " + string(c.scenario(&Fault{Model: "poll", K: 1, Err: c.Err}).Marshal()))
				es := &EnumStats{Stats: sum.Stats}
				fs, err := EnumerateC20(t, c, 1, es)
				if err != nil {
					harness(err, fmt.Sprintf("seed %d", seed))
				}
				sum.Cases += es.Cases
				sum.Sampled += es.Sampled
				sum.Executions += es.Executions
				sum.Unobservable += es.Unobservable
				if es.MaxAfter > sum.MaxAfter {
					sum.MaxAfter = es.MaxAfter
				}
				sum.Observable += es.Observable
				sum.DistinctObs = append(sum.DistinctObs, hashKey(fmt.Sprintf("%+v", c)))
				if len(sum.Samples) < 2 {
					sum.Samples = append(sum.Samples, c.scenario(&Fault{Model: "step", K: 1, Err: c.Err}).Marshal())
				}
				for _, f := range fs {
					f.Scenario.Seed = seed
					sum.Violations = append(sum.Violations, FoundViolation{Seed: seed, Scenario: f.Scenario, Report: f.Report})
				}
				continue
			}
			var sc *Scenario
			if role == "c19" && os.Getenv("SIM_FAMILY") == "twin" {
				sc = TwinScenario(int(seed), mode)
			} else if role == "c19" && os.Getenv("SIM_FAMILY") == "storm" {
				sc = StormScenario(int(seed))
			} else {
				sc = Generate(seed, GenOptions{Property: prop, Mode: mode})
			}
			progress(fmt.Sprintf("%s seed=%d mode=%s", role, seed, mode))
			rep, err := RunScenario(t, sc, false)
			if err != nil {
				harness(err, fmt.Sprintf("seed %d", seed))
			}
			sum.Scenarios++
			if mode == "window" && (sum.Scenarios%25 == 0 || nonASCII(sc)) {
				// More history between scenarios: caches of printed
				// strings rotate, earlier entries age (at once after a
				// scenario whose own texts such a cache may hold).
				preSoak(200)
			}
			mergeStats(sum.Stats, rep.Stats)
			sum.Fingerprints = append(sum.Fingerprints, rep.Fingerprint)
			sum.Seeds = append(sum.Seeds, seed)
			if role == "c20gen" {
				for _, tk := range rep.Outcomes {
					for _, o := range tk {
						if o.Fired {
							sum.Executions++
							if o.Observable {
								sum.Observable++
							} else {
								sum.Unobservable++
							}
						}
					}
				}
			}
			if len(sum.Samples) < 2 {
				sum.Samples = append(sum.Samples, sc.Marshal())
			}
			if len(rep.Violations) > 0 {
				rep.Outcomes = nil
				sum.Violations = append(sum.Violations, FoundViolation{Seed: seed, Scenario: sc, Report: rep})
			}
		}
		if sentinels != nil {
			soak()
			bad, err := checkSentinels(t, sentinels)
			if err != nil {
				harness(err, "sentinels")
			}
			sum.Sentinels, sum.SentinelsChecked = bad, len(sentinels)
		}
		finish()

	case "c20enum":
		stride := envU("SIM_STRIDE", 1)
		cases := CuratedC20Cases(thorough)
		sizes := []int{8, 64, 512}
		if thorough {
			sizes = []int{8, 64, 512, 4096}
		}
		nCur := len(cases)
		cases = append(cases, ScalingC20Cases(sizes)...)
		es := &EnumStats{Stats: sum.Stats}
		for i, c := range cases {
			if uint64(i)%stride != from {
				continue
			}
			progress("case " + string(c.scenario(&Fault{Model: "poll", K: 1, Err: c.Err}).Marshal()))
			every := 1
			if i >= nCur {
				every = 97
			}
			obs0 := es.Observable
			fs, err := EnumerateC20(t, c, every, es)
			if err != nil {
				harness(err, fmt.Sprintf("case %d %+v", i, c))
			}
			_ = obs0
			if len(sum.Samples) < 2 {
				sum.Samples = append(sum.Samples, c.scenario(&Fault{Model: "poll", K: 1, Err: c.Err}).Marshal())
			}
			for _, f := range fs {
				sum.Violations = append(sum.Violations, FoundViolation{Seed: uint64(i), Scenario: f.Scenario, Report: f.Report})
			}
		}
		sum.Cases, sum.Executions, sum.Observable, sum.Unobservable, sum.MaxAfter = es.Cases, es.Executions, es.Observable, es.Unobservable, es.MaxAfter
		sum.Sampled = es.Sampled
		finish()

	case "replay":
		data, err := os.ReadFile(os.Getenv("SIM_SCENARIO"))
		if err != nil {
			die(2, "harness: %v", err)
		}
		sc, err := ParseScenario(data)
		if err != nil {
			die(2, "harness: %v", err)
		}
		progress("replay")
		rep, err := RunScenario(t, sc, os.Getenv("SIM_KEEPLOG") != "")
		if err != nil {
			sum.HarnessError = err.Error()
			finish()
			die(2, "harness trouble: %v", err)
		}
		sum.Scenarios = 1
		mergeStats(sum.Stats, rep.Stats)
		sum.Fingerprints = []string{rep.Fingerprint}
		sum.Violations = []FoundViolation{{Seed: sc.Seed, Report: rep}}
		finish()

	case "seq":
		// A history: several scenarios executed one after the other in this
		// process. Reports every fingerprint and the result lines of the
		// last scenario, so the driver can compare "after this history"
		// with "alone in a fresh process" (C19.history).
		data, err := os.ReadFile(os.Getenv("SIM_SCENARIO"))
		if err != nil {
			die(2, "harness: %v", err)
		}
		var list struct {
			Scenarios []json.RawMessage `json:"scenarios"`
		}
		if err := json.Unmarshal(data, &list); err != nil {
			die(2, "harness: %v", err)
		}
		if salt := os.Getenv("SIM_SENTINEL_SALT"); salt != "" && os.Getenv("SIM_NOPOOL") == "" {
			// Reproduce the batch worker's start-up history too.
			n, _ := strconv.ParseUint(salt, 10, 64)
			if _, err := startSentinels(t, n); err != nil {
				harness(err, "sentinels")
			}
		}
		for i, raw := range list.Scenarios {
			sc, err := ParseScenario(raw)
			if err != nil {
				die(2, "harness: scenario %d: %v", i, err)
			}
			progress(fmt.Sprintf("seq %d", i))
			rep, err := RunScenario(t, sc, true)
			if err != nil {
				harness(err, fmt.Sprintf("seq scenario %d", i))
			}
			sum.Scenarios++
			mergeStats(sum.Stats, rep.Stats)
			sum.Fingerprints = append(sum.Fingerprints, rep.Fingerprint)
			sum.LastResults = resultLines(rep.Log)
			sum.LastLog = rep.Log
			if len(rep.Violations) > 0 && i == len(list.Scenarios)-1 {
				rep.Outcomes = nil
				rep.Log = ""
				sum.Violations = append(sum.Violations, FoundViolation{Seed: sc.Seed, Report: rep})
			}
		}
		finish()

	case "witness":
		// The listed known-finding witnesses of C19 (DESIGN 6.1): report
		// which of them still fail C19.repeat.
		for i, wn := range knownFindingWitnesses {
			sc := &Scenario{Version: 1, Property: "C19", Mode: "interleave", Start: "2010-06-15T10:00:00Z",
				Paths: []string{wn.Path}, Docs: []DocSpec{{JSON: wn.Doc}},
				Tasks: []TaskSpec{{Ops: []OpSpec{{Kind: "query", Vars: -1}, {Kind: "query", Vars: -1}}}, {Ops: []OpSpec{{Kind: "query", Vars: -1}}}}}
			rep, err := RunScenario(t, sc, false)
			if err != nil {
				harness(err, fmt.Sprintf("witness %d", i))
			}
			sum.Scenarios++
			if len(rep.Violations) > 0 {
				// Only id members may differ: ranked renderings must agree.
				ranked := true
				for _, tk := range rep.Outcomes {
					for _, o := range tk {
						if o.Ranked != rep.Outcomes[0][0].Ranked || o.Err != "" {
							ranked = false
						}
					}
				}
				if ranked {
					sum.Known = append(sum.Known, fmt.Sprintf("witness=%d path=%q doc=%s: %s", i, wn.Path, wn.Doc, rep.Violations[0].Clause))
				} else {
					sum.Violations = append(sum.Violations, FoundViolation{Seed: uint64(i), Scenario: sc, Report: rep})
				}
			}
		}
		finish()

	case "twincount":
		fmt.Println(TwinCount())

	case "dump":
		seeds := []uint64{}
		for seed := from; seed < to; seed++ {
			seeds = append(seeds, seed)
		}
		if list := os.Getenv("SIM_SEEDS"); list != "" {
			seeds = seeds[:0]
			for _, f := range strings.Split(list, ",") {
				v, err := strconv.ParseUint(f, 10, 64)
				if err != nil {
					die(2, "harness: bad SIM_SEEDS")
				}
				seeds = append(seeds, v)
			}
		}
		for _, seed := range seeds {
			prop := os.Getenv("SIM_PROPERTY")
			if prop == "" {
				prop = "C19"
			}
			if os.Getenv("SIM_FAMILY") == "twin" {
				os.Stdout.Write(TwinScenario(int(seed), mode).Marshal())
				continue
			}
			if os.Getenv("SIM_FAMILY") == "storm" {
				os.Stdout.Write(StormScenario(int(seed)).Marshal())
				continue
			}
			os.Stdout.Write(Generate(seed, GenOptions{Property: prop, Mode: mode}).Marshal())
		}

	default:
		die(2, "harness: unknown SIM_ROLE %q", role)
	}
}
