package sim

import (
	"context"
	"fmt"
	"regexp"
	"testing"
	"time"

	"github.com/theory/sqljson/path"
	"github.com/theory/sqljson/path/exec"
	"github.com/theory/sqljson/path/types"
)

var methodArg = regexp.MustCompile(`\(\s*[0-9"]`)

// Sentinels are Paths that live as long as the worker process: every curated
// (path, home document) pair is parsed and queried once when the worker
// starts and queried again, on the same Path object, when it has finished
// all its scenarios. "Repeating a query on the same inputs returns the same
// items and the same error, independently of any queries executed before" -
// here with thousands of scenarios, parses and collections in between, which
// is what it takes to wrap a ring cache or to evict and re-map an entry.

type sentinel struct {
	idx    int
	w      *world
	op     OpSpec
	before *Outcome
}

// SentinelMismatch is reported in the worker summary.
type SentinelMismatch struct {
	Index  int    `json:"index"` // twin pair index
	Path   string `json:"path"`
	Doc    string `json:"doc"`
	Before string `json:"before"`
	After  string `json:"after"`
}

func startSentinels(t *testing.T, salt uint64) ([]*sentinel, error) {
	var out []*sentinel
	pairs := twinPairs()
	for idx, pr := range pairs {
		p, d := poolPaths[pr[0]], poolDocs[pr[1]]
		// A quarter of the pairs per worker (which quarter depends on the
		// worker's seed range): a live heap that grows with the number of
		// sentinels makes every forced collection slower.
		// Paths with a literal method argument are always kept: caches of
		// validated arguments are the typical per-node cache.
		if addrDependent(p.Text) || d.NoGen || ((uint64(idx)+salt)%4 != 0 && !methodArg.MatchString(p.Text)) {
			continue
		}
		sc := &Scenario{Version: 1, Property: "C19", Mode: "interleave", Start: "2010-06-15T10:00:00Z",
			Paths: []string{p.Text}, Docs: []DocSpec{{JSON: d.JSON}}, Vars: []DocSpec{{JSON: poolVars[0]}},
			Tasks: []TaskSpec{{Ops: []OpSpec{{Kind: "query", Path: 0, Doc: 0, Vars: 0, TZ: true, Zone: "UTC"}}}}}
		w, err := buildWorld(sc)
		if err != nil {
			return nil, err
		}
		s := &sentinel{idx: idx, w: w, op: sc.Tasks[0].Ops[0]}
		if err := bubble(t, func() {
			s.before = w.execOp(s.op, nil, false) // the shared, long-lived Path object
			releaseContexts([]*Outcome{s.before})
		}); err != nil {
			return nil, err
		}
		out = append(out, s)
	}
	return out, nil
}

func checkSentinels(t *testing.T, list []*sentinel) ([]SentinelMismatch, error) {
	var bad []SentinelMismatch
	for _, s := range list {
		var after *Outcome
		if err := bubble(t, func() {
			after = s.w.execOp(s.op, nil, false)
			releaseContexts([]*Outcome{after})
		}); err != nil {
			return nil, err
		}
		if !after.SameRanked(s.before) {
			bad = append(bad, SentinelMismatch{Index: s.idx, Path: s.w.sc.Paths[0], Doc: clip(s.w.sc.Docs[0].JSON, 200),
				Before: s.before.Brief(), After: after.Brief()})
		}
	}
	return bad, nil
}

func (m SentinelMismatch) String() string {
	return fmt.Sprintf("query %q doc=%s on one long-lived Path: when the worker started: %s; after all its scenarios: %s", m.Path, m.Doc, m.Before, m.After)
}

// warmUp exercises every curated (path, home document) pair once OUTSIDE any
// synctest bubble when a worker starts: goroutines the library starts lazily
// (and which never exit) then live outside the bubbles, on real time, where
// the race detector still sees them; started inside a bubble they would keep
// it from ending. Cold-start runs skip this on purpose.
func warmUp() {
	defer func() { _ = recover() }()
	ctx := types.ContextWithTZ(context.Background(), time.UTC)
	for _, pr := range twinPairs() {
		p, d := poolPaths[pr[0]], poolDocs[pr[1]]
		if d.NoGen {
			continue
		}
		pa, err := safeParse(p.Text)
		if err != nil {
			continue
		}
		doc, err := decodeJSON(DocSpec{JSON: d.JSON})
		if err != nil {
			continue
		}
		func() {
			defer func() { _ = recover() }()
			_, _ = pa.Query(ctx, doc, exec.WithTZ())
			_ = pa.String()
			_, _ = pa.MarshalText()
		}()
	}
}

// soak is the tail of a long-running process compressed into a fraction of a
// second: a few hundred calls that each create thousands of short-lived
// objects (existence checks over the .keyvalue() of a 4096-member object,
// wildcards over a large array), run when a worker has finished its
// scenarios and before the sentinels are queried again. Process-wide
// budgets, counters and pools that some entry point forgets to give back
// run dry here, and the sentinels then notice.
func soak() {
	defer func() { _ = recover() }()
	ctx := context.Background()
	obj := make(map[string]any, 4096)
	for i := 0; i < 4096; i++ {
		obj[fmt.Sprintf("k%04d", i)] = float64(i)
	}
	arr := make([]any, 2048)
	for i := range arr {
		arr[i] = map[string]any{"a": float64(i)}
	}
	type call struct {
		p   *path.Path
		doc any
	}
	var calls []call
	for _, c := range []struct {
		txt string
		doc any
	}{
		{`strict $.keyvalue()`, obj}, {`$.keyvalue() ? (@.value < 0)`, obj}, {`$.keyvalue().key`, obj},
		{`$[*].a ? (@ < 0)`, arr}, {`$[*].keyvalue()`, arr}, {`strict $[*].a`, arr},
	} {
		if p, err := safeParse(c.txt); err == nil {
			calls = append(calls, call{p, c.doc})
		}
	}
	for r := 0; r < 90; r++ {
		for _, c := range calls {
			func() {
				defer func() { _ = recover() }()
				tickProgress() // slow is not stuck: the watchdog counts calls that returned
				_, _ = c.p.Exists(ctx, c.doc)
				_, _ = c.p.ExistsOrMatch(ctx, c.doc, exec.WithSilent())
				if r%10 == 0 {
					_, _ = c.p.First(ctx, c.doc)
					_, _ = c.p.Query(ctx, c.doc)
				}
			}()
		}
	}
}

var soakSerial int

// preSoak gives a window-mode worker some of the history of a long-running
// process before its first scenario: several hundred distinct paths with
// non-ASCII keys are parsed and printed (bounded, generational caches of
// printed strings have rotated by the time the scenarios print concurrently).
func preSoak(n int) {
	defer func() { _ = recover() }()
	soakSerial += n
	for i := soakSerial - n; i < soakSerial; i++ {
		tickProgress()
		if p, err := safeParse(fmt.Sprintf(`$."é%d"."ü%d" ? (@ == "日%d")`, i, i, i)); err == nil {
			_ = p.String()
		}
	}
}
