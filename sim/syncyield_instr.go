//go:build instr

package sim

import "github.com/theory/sqljson/path/verifsync"

// In builds against the instrumented scratch copy of the library (driver:
// "sync-point pass"), every synchronisation operation of the library is a
// cooperative yield point of the task that the interleave scheduler has
// released.
func init() {
	verifsync.Yield = syncYield
	instrBuild = true
}
