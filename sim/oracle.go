package sim

import (
	"fmt"
	"sync/atomic"
	"runtime/debug"
	"strings"
	"testing"
	"testing/synctest"
	"time"
)

// Violation is one failed oracle clause.
type Violation struct {
	Clause string `json:"clause"` // e.g. "C19.value", "C20.noitems"
	Task   int    `json:"task"`
	Op     int    `json:"op"`
	Detail string `json:"detail"`
}

// Report is the verdict on one scenario.
type Report struct {
	Property    string      `json:"property"`
	Seed        uint64      `json:"seed"`
	Mode        string      `json:"mode"`
	Fingerprint string      `json:"fingerprint"`
	Violations  []Violation `json:"violations,omitempty"`
	Stats       *RunStats   `json:"stats"`
	Outcomes    [][]*Outcome `json:"outcomes,omitempty"`
	Log         string      `json:"log,omitempty"`
}

// Class is the violation class used to decide whether a shrunk scenario
// still shows "the same" failure: the sorted set of clauses.
func (r *Report) Class() string {
	seen := map[string]bool{}
	var out string
	for _, v := range r.Violations {
		if !seen[v.Clause] {
			seen[v.Clause] = true
		}
	}
	for _, c := range []string{
		"C19.value", "C19.repeat", "C19.immutable",
		"C20.err", "C20.class", "C20.noitems", "C20.bounded", "C20.intact", "C20.nofault",
	} {
		if seen[c] {
			if out != "" {
				out += ","
			}
			out += c
		}
	}
	return out
}

// bubble runs f inside a fresh synctest bubble and converts panics into an
// error (harness trouble; executor panics are recovered inside execOp).
func bubble(t *testing.T, f func()) (err error) {
	tickProgress()
	defer tickProgress()
	finished := false
	defer func() {
		if r := recover(); r != nil && err == nil {
			if finished && strings.Contains(fmt.Sprint(r), "blocked goroutines remain") {
				// f ran to completion and every goroutine the simulator
				// started has exited: what remains was started by the
				// library (a background refresher, say) inside this bubble.
				// Not the simulator's trouble; counted, and the warm-up
				// outside any bubble makes it rare.
				LeftoverGoroutines.Add(1)
				return
			}
			// (When f itself failed, parked task goroutines remain and
			// synctest reports a deadlock on top: keep the first error.)
			err = toErr(r)
		}
	}()
	synctest.Test(t, func(*testing.T) {
		defer func() {
			if r := recover(); r != nil {
				err = toErr(r)
			}
		}()
		f()
		finished = true
	})
	return err
}

// LeftoverGoroutines counts bubbles that ended with library-started
// goroutines still alive.
var LeftoverGoroutines atomic.Int64

func toErr(r any) error {
	if e, ok := r.(*HarnessError); ok {
		return e
	}
	return harnessf("panic: %v\n%s", r, panicStack())
}

type opRef struct{ task, op int }

// ColdStart makes RunScenario execute the concurrent phase before any
// reference run (set from SIM_COLD by the worker).
var ColdStart bool

// RunScenario executes sc and evaluates the oracles of sc.Property.
func RunScenario(t *testing.T, sc *Scenario, keepLog bool) (*Report, error) {
	w, err := buildWorld(sc)
	if err != nil {
		return nil, err
	}
	rep := &Report{Property: sc.Property, Seed: sc.Seed, Mode: sc.Mode}
	var all []opRef
	for ti, tk := range sc.Tasks {
		for oi := range tk.Ops {
			all = append(all, opRef{ti, oi})
		}
	}
	opOf := func(r opRef) OpSpec { return sc.Tasks[r.task].Ops[r.op] }
	type refTable map[opRef]*Outcome

	// alone runs the listed ops one after the other, each on a freshly
	// parsed Path, in one bubble starting at the scenario start time.
	alone := func(list []opRef, strip bool) (refTable, error) {
		tab := refTable{}
		err := bubble(t, func() {
			if d := time.Until(w.startAt); d > 0 {
				time.Sleep(d)
			}
			for _, r := range list {
				op := opOf(r)
				if strip {
					op.Fault = nil
				}
				tab[r] = w.execOp(op, nil, true)
			}
			for _, o := range tab {
				releaseContexts([]*Outcome{o})
			}
		})
		return tab, err
	}
	// aloneAt runs one op alone at a given fake instant.
	aloneAt := func(r opRef, at int64, strip bool) (*Outcome, error) {
		var out *Outcome
		err := bubble(t, func() {
			if d := time.Until(time.Unix(0, at)); d > 0 {
				time.Sleep(d)
			}
			op := opOf(r)
			if strip {
				op.Fault = nil
			}
			out = w.execOp(op, nil, true)
			releaseContexts([]*Outcome{out})
		})
		return out, err
	}

	var steady, zoned []opRef
	for _, r := range all {
		if opOf(r).ZoneSensitive() {
			zoned = append(zoned, r)
		} else {
			steady = append(steady, r)
		}
	}

	// Which comes first: the reference pass or the concurrent phase? With the
	// references first, "independently of any queries executed before" is
	// checked against a warm process; but the references also warm every
	// lazily filled, process-wide structure before the tasks reach it
	// together. Window-mode scenarios with an even seed (and every cold-start
	// run) therefore run the concurrent phase first.
	mainFirst := ColdStart || (sc.Mode == "window" && sc.Seed%2 == 0)
	var refA, refNoFault refTable
	switch sc.Property {
	case "C19":
		// Cold start: the concurrent phase is the first thing this process
		// does with the library (lazily initialised package state must meet
		// its first use there); both reference passes follow it.
		if !mainFirst {
			if refA, err = alone(steady, false); err != nil {
				return nil, err
			}
		}
	case "C20":
		var faulted []opRef
		for _, r := range all {
			if opOf(r).Fault != nil && !opOf(r).ZoneSensitive() {
				faulted = append(faulted, r)
			}
		}
		if refNoFault, err = alone(faulted, true); err != nil {
			return nil, err
		}
	}

	// The simulated, concurrent phase.
	var run *runResult
	if err := bubble(t, func() { run = w.runConcurrent() }); err != nil {
		return nil, err
	}
	rep.Stats = run.stats
	rep.Fingerprint = run.fingerprint()
	rep.Outcomes = run.outcomes
	if keepLog {
		rep.Log = run.log.String()
	}
	add := func(clause string, r opRef, format string, a ...any) {
		rep.Violations = append(rep.Violations, Violation{Clause: clause, Task: r.task, Op: r.op, Detail: fmt.Sprintf(format, a...)})
	}
	describe := func(r opRef) string {
		op := opOf(r)
		s := fmt.Sprintf("%s %q", op.Kind, sc.Paths[op.Path])
		if op.IsExec() {
			s += " doc=" + sc.Docs[op.Doc].JSON
			if op.Vars >= 0 {
				s += " vars=" + sc.Vars[op.Vars].JSON
			}
			if op.Silent {
				s += " silent"
			}
			if op.TZ {
				s += " tz"
			}
			if op.Zone != "" {
				s += " zone=" + op.Zone
			}
			if op.Ctx != "" {
				s += " ctx=" + op.Ctx
			}
			if f := op.Fault; f != nil {
				s += fmt.Sprintf(" fault=%s@%d/%s", f.Model, f.K, f.Err)
			}
		}
		return s
	}

	// Aggregate per-op reach data and check the hook is alive.
	for _, r := range all {
		o := run.outcomes[r.task][r.op]
		for k, n := range o.nodeKinds {
			run.stats.NodeKinds[k] += n
		}
		if o.Fired {
			op := opOf(r)
			kind := op.Fault.Model + "/" + op.Ctx + "/" + op.Fault.Err
			run.stats.FaultsFired[kind]++
			if o.Observable {
				run.stats.FireStacks[o.FireStack]++
			} else {
				run.stats.Unobservable++
			}
		}
	}

	switch sc.Property {
	case "C19":
		if mainFirst {
			if refA, err = alone(steady, false); err != nil {
				return nil, err
			}
		}
		// Second reference pass, after the concurrent phase, reverse order.
		rev := make([]opRef, len(steady))
		for i, r := range steady {
			rev[len(steady)-1-i] = r
		}
		refB, err := alone(rev, false)
		if err != nil {
			return nil, err
		}
		for _, r := range zoned {
			at := run.outcomes[r.task][r.op].StartNanos
			a, err := aloneAt(r, at, false)
			if err != nil {
				return nil, err
			}
			b, err := aloneAt(r, at, false)
			if err != nil {
				return nil, err
			}
			if refA == nil {
				refA = refTable{}
			}
			refA[r], refB[r] = a, b
		}
		for _, r := range all {
			a, b, got := refA[r], refB[r], run.outcomes[r.task][r.op]
			if !a.SameRaw(b) {
				add("C19.repeat", r, "%s: alone, first: %s; alone, again: %s", describe(r), a.Brief(), b.Brief())
				continue
			}
			if !got.SameRaw(a) {
				add("C19.value", r, "%s: in simulation: %s; alone: %s", describe(r), got.Brief(), a.Brief())
			}
		}
		for _, r := range all {
			for _, o := range []*Outcome{run.outcomes[r.task][r.op], refA[r]} {
				if o != nil && o.Identity != "" {
					add("C19.value", r, "%s: the result depends on the identity or history of the document object, not on its value: %s", describe(r), o.Identity)
					break
				}
			}
		}
		for _, c := range run.changed {
			add("C19.value", opRef{c.task, c.op}, "%s: the returned value changed after the call returned (it shares storage with the document or with a later call): at return %s, at the end of the scenario %s",
				describe(opRef{c.task, c.op}), c.before, c.after)
		}
		w.checkImmutable(rep, "C19.immutable")

	case "C20":
		for _, r := range all {
			op := opOf(r)
			if op.Fault == nil {
				continue
			}
			if op.ZoneSensitive() {
				// The uncancelled reference of a clock-dependent
				// operation is taken at the instant the operation
				// started (the clock may have jumped before it).
				ref, err := aloneAt(r, run.outcomes[r.task][r.op].StartNanos, true)
				if err != nil {
					return nil, err
				}
				refNoFault[r] = ref
			}
			judgeC20(add, r, describe(r), op, run.outcomes[r.task][r.op], refNoFault[r], len(sc.Paths[op.Path]))
		}
		w.checkImmutable(rep, "C20.intact")
	}
	return rep, nil
}

// judgeC20 applies the cancellation oracle to one faulted operation.
func judgeC20(add func(string, opRef, string, ...any), r opRef, desc string, op OpSpec, got, ref *Outcome, pathLen int) {
	if !got.Observable {
		// The executor had no chance to notice: this is a no-fault run
		// and must equal the reference.
		if !got.SameRaw(ref) {
			add("C20.nofault", r, "%s: fault not observable, yet result %s differs from uncancelled %s", desc, got.Brief(), ref.Brief())
		}
		return
	}
	wantCtx := "Canceled"
	if op.Fault.Err == "deadline" {
		wantCtx = "DeadlineExceeded"
	}
	where := fmt.Sprintf("%s (at %s, uncancelled: %s)", desc, got.FireStack, ref.Brief())
	if got.Panic != "" {
		add("C20.intact", r, "%s: panic %s", where, got.Panic)
		return
	}
	if got.Err == "" {
		add("C20.err", r, "%s: returned %s with a nil error", where, got.Raw)
	} else {
		cls := "+" + got.Classes + "+"
		if !strings.Contains(cls, "+ErrExecution+") || !strings.Contains(cls, "+"+wantCtx+"+") {
			add("C20.class", r, "%s: error %q wraps [%s], want ErrExecution and %s", where, got.Err, got.Classes, wantCtx)
		}
		if strings.Contains(cls, "+NULL+") {
			add("C20.noitems", r, "%s: cancellation reported as NULL", where)
		}
	}
	// No items: Query nil slice, First nil, booleans false.
	var zero string
	switch op.Kind {
	case "query", "parsequery":
		zero = "<nil>"
	case "first":
		zero = "null"
	default:
		zero = "false"
	}
	if got.Raw != zero && !(zero == "<nil>" && got.Raw == "[]") {
		add("C20.noitems", r, "%s: returned %s alongside err=%q", where, got.Raw, got.Err)
	}
	bound := 64 + 4*pathLen
	if got.StepsAfter > bound || got.PollsAfter > bound {
		add("C20.bounded", r, "%s: %d further steps and %d further polls after the context was done (bound %d)", where, got.StepsAfter, got.PollsAfter, bound)
	}
}

// checkImmutable compares every shared object with its snapshot.
func (w *world) checkImmutable(rep *Report, clause string) {
	for i, d := range w.docs {
		if now := renderValue(d, false); now != w.docSnap[i] {
			rep.Violations = append(rep.Violations, Violation{Clause: clause, Task: -1, Op: -1,
				Detail: fmt.Sprintf("document %d changed: before %s after %s", i, w.docSnap[i], now)})
		}
	}
	for i, v := range w.vars {
		if now := renderValue(map[string]any(v), false); now != w.varSnap[i] {
			rep.Violations = append(rep.Violations, Violation{Clause: clause, Task: -1, Op: -1,
				Detail: fmt.Sprintf("vars %d changed: before %s after %s", i, w.varSnap[i], now)})
		}
	}
	for i, p := range w.paths {
		if p == nil {
			continue
		}
		twin, err := safeParse(w.sc.Paths[i])
		if err != nil {
			rep.Violations = append(rep.Violations, Violation{Clause: clause, Task: -1, Op: -1,
				Detail: fmt.Sprintf("path %d %q parsed when the scenario started but not when it ended: %v", i, w.sc.Paths[i], err)})
			continue
		}
		w.pathSnap[i] = pathSnapshot(twin)
		if now := pathSnapshot(p); now != w.pathSnap[i] {
			rep.Violations = append(rep.Violations, Violation{Clause: clause, Task: -1, Op: -1,
				Detail: fmt.Sprintf("path %d changed: before %s after %s", i, w.pathSnap[i], now)})
		}
	}
}

// panicStack returns the frames of the panicking goroutine that lie in the
// simulator or the library (for harness trouble reports).
func panicStack() string {
	var keep []string
	lines := strings.Split(string(debug.Stack()), "\n")
	for i := 0; i+1 < len(lines); i++ {
		if strings.HasPrefix(lines[i], "verif/sim.") || strings.HasPrefix(lines[i], "github.com/theory/sqljson/") {
			keep = append(keep, strings.TrimSpace(lines[i])+" "+strings.TrimSpace(lines[i+1]))
		}
	}
	if len(keep) > 12 {
		keep = keep[:12]
	}
	return strings.Join(keep, "\n")
}
