package sim

import (
	"context"
	"fmt"
	"strings"
	"time"

	"github.com/theory/sqljson/path/ast"
	"github.com/theory/sqljson/path/exec"
)

type opKeyT struct{}

var opKey opKeyT

// opState is the per-operation simulation state. It is reachable from the
// context handed to the executor, which is how the step hook finds it.
type opState struct {
	task  *task // nil when the operation runs alone (reference runs)
	fault *Fault
	kind  string // "", "cancel", "deadline", "parent", "cause"

	inner       context.Context // real context under the simctx
	cancel      context.CancelFunc
	trigger     func() // makes inner done: cancel(), parent cancel, or sleep past the deadline
	cleanup     func()
	deadline    time.Time
	stubErr     error
	stubFired   bool
	closedChan  chan struct{}
	anc         map[ast.Node][]string
	polls       int
	steps       int
	fired       bool
	pollsAfter  int
	stepsAfter  int
	fireNode    string
	fireStack   string
	curNode     ast.Node
	nodeKinds   map[string]int // node kind -> steps (reach)
	valueLookup int
	foreignSteps int
}

// soleOp is the one execution in flight when executions cannot overlap
// (alone runs, single-task scenarios); nil otherwise.
var soleOp *opState

// simctx is the context the executor sees. It counts polls, fires
// poll-synchronous faults, and carries the opState.
type simctx struct {
	st *opState
}

func (c *simctx) Deadline() (time.Time, bool) { return c.st.inner.Deadline() }

func (c *simctx) Value(key any) any {
	if _, ok := key.(opKeyT); ok {
		return c.st
	}
	c.st.valueLookup++
	return c.st.inner.Value(key)
}

// poll is the common part of Done and Err: it numbers the poll and fires a
// poll-synchronous fault that is due.
func (c *simctx) poll() {
	st := c.st
	idx := st.polls
	st.polls++
	if st.fired {
		st.pollsAfter++
		return
	}
	if f := st.fault; f != nil && f.Model == "poll" && f.K == idx {
		st.fire()
	}
}

func (c *simctx) Done() <-chan struct{} {
	c.poll()
	if c.st.kind == "" {
		if c.st.stubFired {
			return c.st.closedChan
		}
		return nil
	}
	return c.st.inner.Done()
}

func (c *simctx) Err() error {
	c.poll()
	if c.st.kind == "" {
		if c.st.stubFired {
			return c.st.stubErr
		}
		return nil
	}
	return c.st.inner.Err()
}

// fire makes the context done now. It is called either on the executing
// goroutine (poll model, or alone runs) or on the scheduler goroutine while
// the task is parked (step model).
func (st *opState) fire() {
	if st.fired {
		return
	}
	st.fired = true
	if st.curNode != nil {
		st.fireNode = nodeKind(st.curNode)
		st.fireStack = strings.Join(append([]string{st.fireNode}, st.anc[st.curNode]...), "<")
	} else {
		st.fireNode = "(before)"
		st.fireStack = "(before)"
	}
	if st.kind == "" {
		st.stubFired = true
		return
	}
	st.trigger()
}

// newOpState builds the context chain for one operation. Must be called
// inside the synctest bubble (timers, channels).
func newOpState(op OpSpec, t *task, root context.Context) (*opState, context.Context, error) {
	if root == nil {
		root = context.Background()
	}
	st := &opState{task: t, fault: op.Fault, kind: op.Ctx, nodeKinds: map[string]int{}}
	st.closedChan = make(chan struct{})
	close(st.closedChan)
	want := "canceled"
	if op.Fault != nil {
		want = op.Fault.Err
	}
	switch op.Ctx {
	case "":
		st.inner = root
		if want == "deadline" {
			st.stubErr = context.DeadlineExceeded
		} else {
			st.stubErr = context.Canceled
		}
		st.cleanup = func() {}
	case "cancel":
		c, cancel := context.WithCancel(root)
		st.inner, st.cancel = c, cancel
		st.trigger = cancel
		st.cleanup = cancel
	case "cause":
		// Cancelled with an explicit cause, as errgroup does when a sibling
		// failed; the cause is itself a suppressible execution error.
		c, cancel := context.WithCancelCause(root)
		st.inner = c
		st.trigger = func() { cancel(fmt.Errorf("%w: sibling query failed", exec.ErrVerbose)) }
		st.cleanup = func() { cancel(nil) }
	case "farcancel":
		// A deadline far in the future, cancelled by hand long before it.
		dl, dcancel := context.WithDeadline(root, time.Now().Add(200*365*24*time.Hour))
		c, cancel := context.WithCancel(dl)
		st.inner, st.cancel = c, cancel
		st.trigger = cancel
		st.cleanup = func() { cancel(); dcancel() }
	case "parent":
		parent, pcancel := context.WithCancel(root)
		c, cancel := context.WithCancel(parent)
		st.inner, st.cancel = c, cancel
		st.trigger = pcancel
		st.cleanup = func() { cancel(); pcancel() }
	case "deadline":
		// A faulted deadline op gets a near deadline that only the
		// fault's own sleep reaches (the runner keeps every other clock
		// advance away while it is in flight, and allows faulted
		// deadline ops in one task only); any other deadline op gets one
		// that no scenario reaches.
		d := 200 * 365 * 24 * time.Hour
		if op.Fault != nil && op.Fault.Err == "deadline" {
			d = 2 * time.Second
		}
		st.deadline = time.Now().Add(d)
		c, cancel := context.WithDeadline(root, st.deadline)
		st.inner, st.cancel = c, cancel
		st.trigger = func() {
			if wait := time.Until(st.deadline); wait >= 0 {
				time.Sleep(wait + time.Nanosecond)
			}
			if st.inner.Err() == nil {
				panic("harness: deadline context did not fire after sleeping past its deadline")
			}
		}
		st.cleanup = cancel
	default:
		return nil, nil, fmt.Errorf("bad ctx kind %q", op.Ctx)
	}
	var ctx context.Context = &simctx{st: st}
	if op.Fault != nil && op.Fault.Model == "pre" {
		// Done before the entry point is even called.
		st.fire()
	}
	return st, ctx, nil
}

// stepHook is installed as exec.VerifStep. It runs on the executing
// goroutine at the start of every path-item evaluation, before the poll.
func stepHook(ctx context.Context, node ast.Node) {
	st, _ := ctx.Value(opKey).(*opState)
	if st == nil {
		// The executor evaluates this step under a context that does not
		// lead back to the caller's (e.g. one rebuilt from Background).
		// When a single execution is in flight it is still that
		// execution's step - and a cancellation of the caller's context
		// must still stop it.
		if st = soleOp; st == nil {
			return
		}
		st.foreignSteps++
	}
	idx := st.steps
	st.steps++
	if st.fired {
		st.stepsAfter++
	}
	st.curNode = node
	st.nodeKinds[nodeKind(node)]++
	if st.task != nil {
		// Park; the scheduler fires a step fault that is due while we
		// are parked, i.e. from another goroutine, between two polls.
		st.task.yield(parkEvent{kind: parkStep, step: idx, node: nodeKind(node), st: st})
		return
	}
	if f := st.fault; f != nil && f.Model == "step" && f.K == idx && !st.fired {
		st.fire()
	}
}

// nodeKind names the kind of an AST node for logs and reach probes.
func nodeKind(n ast.Node) string {
	switch n := n.(type) {
	case *ast.ConstNode:
		switch n.Const() {
		case ast.ConstRoot:
			return "$"
		case ast.ConstCurrent:
			return "@"
		case ast.ConstLast:
			return "last"
		case ast.ConstAnyArray:
			return "[*]"
		case ast.ConstAnyKey:
			return ".*"
		default:
			return "const"
		}
	case *ast.StringNode:
		return "str"
	case *ast.IntegerNode:
		return "int"
	case *ast.NumericNode:
		return "num"
	case *ast.VariableNode:
		return "var"
	case *ast.KeyNode:
		return "key"
	case *ast.BinaryNode:
		switch n.Operator() {
		case ast.BinaryAnd:
			return "and"
		case ast.BinaryOr:
			return "or"
		case ast.BinaryStartsWith:
			return "startswith"
		case ast.BinaryAdd, ast.BinarySub, ast.BinaryMul, ast.BinaryDiv, ast.BinaryMod:
			return "arith"
		case ast.BinarySubscript:
			return "subscript"
		case ast.BinaryDecimal:
			return "decimal"
		default:
			return "cmp"
		}
	case *ast.UnaryNode:
		switch n.Operator() {
		case ast.UnaryExists:
			return "exists"
		case ast.UnaryNot:
			return "not"
		case ast.UnaryIsUnknown:
			return "isunknown"
		case ast.UnaryPlus, ast.UnaryMinus:
			return "sign"
		case ast.UnaryFilter:
			return "filter"
		default:
			return "datetime"
		}
	case *ast.RegexNode:
		return "like_regex"
	case *ast.MethodNode:
		if n.Name() == ast.MethodKeyValue {
			return "keyvalue"
		}
		return "method"
	case *ast.AnyNode:
		return ".**"
	case *ast.ArrayIndexNode:
		return "index"
	case nil:
		return "nil"
	}
	return fmt.Sprintf("%T", n)
}

// walkAST records, for every node reachable through the exported accessors,
// the kinds of the nodes it is an operand of (innermost first), and returns
// the node count.
func walkAST(a *ast.AST) (map[ast.Node][]string, int) {
	anc := map[ast.Node][]string{}
	count := 0
	var visit func(n ast.Node, up []string)
	visit = func(n ast.Node, up []string) {
		for ; n != nil; n = n.Next() {
			if _, seen := anc[n]; seen {
				return
			}
			anc[n] = up
			count++
			inner := append([]string{nodeKind(n)}, up...)
			switch n := n.(type) {
			case *ast.BinaryNode:
				if n.Left() != nil {
					visit(n.Left(), inner)
				}
				if n.Right() != nil {
					visit(n.Right(), inner)
				}
			case *ast.UnaryNode:
				if n.Operand() != nil {
					visit(n.Operand(), inner)
				}
			case *ast.RegexNode:
				if n.Operand() != nil {
					visit(n.Operand(), inner)
				}
			case *ast.ArrayIndexNode:
				for _, s := range n.Subscripts() {
					visit(s, inner)
				}
			}
		}
	}
	visit(a.Root(), nil)
	return anc, count
}
