// Package sim is a deterministic simulator for theory/sqljson: it runs caller
// goroutines ("tasks") that share parsed Paths, documents and variable maps
// under a scheduler that is driven entirely by an explicit scenario file.
// No PRNG is consulted while a scenario executes; the PRNG only writes the
// scenario (gen.go).
package sim

import (
	"bytes"
	"encoding/json"
	"fmt"
	"strings"
)

// Scenario is the complete, explicit description of one simulated execution.
// It is also the replay file format.
type Scenario struct {
	Version  int    `json:"version"`
	Property string `json:"property"`       // "C19" or "C20"
	Seed     uint64 `json:"seed"`           // the VERIF_SEED-derived value that generated it (informational)
	Mode     string `json:"mode"`           // "interleave" or "window"
	Start    string `json:"start"`          // fake-clock start, RFC3339 (UTC), >= 2000-01-01T00:00:00Z
	Paths    []string `json:"paths"`        // shared Path texts
	Docs     []DocSpec `json:"docs"`        // shared documents
	Vars     []DocSpec `json:"vars"`        // shared variable maps (JSON objects)
	Tasks    []TaskSpec `json:"tasks"`      // logical caller goroutines
	Schedule []Window `json:"schedule"`     // explicit schedule; exhausted => round-robin
	Note     string `json:"note,omitempty"` // free text (generator family, minimiser notes)
}

// DocSpec is a JSON text plus the way it is decoded.
type DocSpec struct {
	JSON   string `json:"json"`
	Number bool   `json:"number,omitempty"` // decode numbers as json.Number instead of float64
	Int64  bool   `json:"int64,omitempty"`  // integral numbers as int64 (as a caller building the value in Go would)
	Native bool   `json:"native,omitempty"` // vars only: top-level values as a Go caller builds them (int, []string, []int)
}

// TaskSpec is one logical goroutine and its operation list.
type TaskSpec struct {
	Ops []OpSpec `json:"ops"`
}

// OpSpec is one public-API call.
type OpSpec struct {
	Kind   string `json:"kind"` // query first exists match existsormatch string marshal ispredicate parse parsequery scan unmarshal rekeyquery
	Path   int    `json:"path"`
	Path2  int    `json:"path2,omitempty"` // scan/unmarshal: text scanned into the caller's own fresh parse of Path
	Doc    int    `json:"doc"`
	Vars   int    `json:"vars"` // -1: none
	Vars2  int    `json:"vars2,omitempty"` // second WithVars option: 1-based index into Vars, 0: none
	Silent bool   `json:"silent,omitempty"`
	TZ     bool   `json:"tz,omitempty"`   // exec.WithTZ
	Zone   string `json:"zone,omitempty"` // "" (no zone in ctx), "UTC", "+05:30", "America/New_York", ...
	Via     string `json:"via,omitempty"` // "": the shared *Path; "new": path.New(shared.AST), another Path over the same AST; "exec": the exec package functions on the shared *ast.AST
	TZDerive string `json:"tzderive,omitempty"` // derive the call's zone context from the shared base context of THIS zone (a per-request zone over an app-wide default)
	TZOuter bool  `json:"tzouter,omitempty"` // zone carried by a private ContextWithTZ wrapper around the call's context instead of by the scenario's shared base context
	Ctx    string `json:"ctx,omitempty"`  // "" = stub; "cancel", "deadline", "parent", "cause"
	Fault  *Fault `json:"fault,omitempty"`
}

// Fault makes the operation's context done at a chosen instant.
type Fault struct {
	Model string `json:"model"` // "pre": before the entry point is called; "poll": inside the K-th Done()/Err() call; "step": while parked before evaluation step K
	K     int    `json:"k"`
	Err   string `json:"err"` // "canceled" or "deadline"
}

// Window is one scheduler round: every listed task runs exactly one step.
// Global faults attached to a window are applied before its tasks are
// released.
type Window struct {
	Tasks   []int  `json:"t,omitempty"`
	JumpTo  string `json:"jump_to,omitempty"` // advance the fake clock to this instant (RFC3339) if later than now
	GC      bool   `json:"gc,omitempty"`
	Ballast int    `json:"ballast,omitempty"` // number of small allocations to make (kept alive until scenario end)
}

// IsExec reports whether the op kind runs the executor.
func (o OpSpec) IsExec() bool {
	switch o.Kind {
	case "query", "first", "exists", "match", "existsormatch", "parsequery", "rekeyquery":
		return true
	}
	return false
}

// ZoneSensitive reports whether the result may depend on the fake clock: a
// named (non-fixed) zone with WithTZ.
func (o OpSpec) ZoneSensitive() bool {
	if !o.TZ || o.Zone == "" || o.Zone == "UTC" {
		return false
	}
	return !strings.HasPrefix(o.Zone, "+") && !strings.HasPrefix(o.Zone, "-")
}

// Marshal renders the scenario as indented JSON.
func (s *Scenario) Marshal() []byte {
	var buf bytes.Buffer
	enc := json.NewEncoder(&buf)
	enc.SetEscapeHTML(false)
	enc.SetIndent("", " ")
	if err := enc.Encode(s); err != nil {
		panic(err)
	}
	return buf.Bytes()
}

// ParseScenario reads a scenario and validates its indices.
func ParseScenario(data []byte) (*Scenario, error) {
	var s Scenario
	dec := json.NewDecoder(bytes.NewReader(data))
	dec.DisallowUnknownFields()
	if err := dec.Decode(&s); err != nil {
		return nil, fmt.Errorf("scenario: %w", err)
	}
	if err := s.Validate(); err != nil {
		return nil, err
	}
	return &s, nil
}

// Validate checks indices and enumerations.
func (s *Scenario) Validate() error {
	if s.Version != 1 {
		return fmt.Errorf("scenario: unsupported version %d", s.Version)
	}
	if s.Property != "C19" && s.Property != "C20" {
		return fmt.Errorf("scenario: bad property %q", s.Property)
	}
	if s.Mode != "interleave" && s.Mode != "window" {
		return fmt.Errorf("scenario: bad mode %q", s.Mode)
	}
	if len(s.Tasks) == 0 {
		return fmt.Errorf("scenario: no tasks")
	}
	for ti, t := range s.Tasks {
		for oi, o := range t.Ops {
			where := fmt.Sprintf("task %d op %d", ti, oi)
			switch o.Kind {
			case "query", "first", "exists", "match", "existsormatch", "parsequery",
				"string", "marshal", "ispredicate", "parse":
			case "rekeyquery":
				if o.Fault != nil {
					return fmt.Errorf("scenario: %s: rekeyquery takes no fault", where)
				}
			case "churn":
			case "scan", "unmarshal":
				if o.Path2 < 0 || o.Path2 >= len(s.Paths) {
					return fmt.Errorf("scenario: %s: bad path2 index", where)
				}
			default:
				return fmt.Errorf("scenario: %s: bad kind %q", where, o.Kind)
			}
			if o.Path < 0 || o.Path >= len(s.Paths) {
				return fmt.Errorf("scenario: %s: bad path index", where)
			}
			if o.IsExec() {
				if o.Doc < 0 || o.Doc >= len(s.Docs) {
					return fmt.Errorf("scenario: %s: bad doc index", where)
				}
				if o.Vars < -1 || o.Vars >= len(s.Vars) || o.Vars2 < 0 || o.Vars2 > len(s.Vars) {
					return fmt.Errorf("scenario: %s: bad vars index", where)
				}
			}
			switch o.Via {
			case "", "new", "exec":
			default:
				return fmt.Errorf("scenario: %s: bad via %q", where, o.Via)
			}
			switch o.Ctx {
			case "", "cancel", "deadline", "parent", "cause", "farcancel":
			default:
				return fmt.Errorf("scenario: %s: bad ctx kind %q", where, o.Ctx)
			}
			if f := o.Fault; f != nil {
				if !o.IsExec() {
					return fmt.Errorf("scenario: %s: fault on non-exec op", where)
				}
				if f.Model != "poll" && f.Model != "step" && f.Model != "pre" {
					return fmt.Errorf("scenario: %s: bad fault model %q", where, f.Model)
				}
				if f.Err != "canceled" && f.Err != "deadline" {
					return fmt.Errorf("scenario: %s: bad fault err %q", where, f.Err)
				}
				if f.K < 0 {
					return fmt.Errorf("scenario: %s: negative fault index", where)
				}
				if (f.Err == "deadline") != (o.Ctx == "deadline") && o.Ctx != "" {
					return fmt.Errorf("scenario: %s: fault err %q does not fit ctx kind %q", where, f.Err, o.Ctx)
				}
			}
		}
	}
	for wi, w := range s.Schedule {
		for _, t := range w.Tasks {
			if t < 0 || t >= len(s.Tasks) {
				return fmt.Errorf("scenario: window %d: bad task %d", wi, t)
			}
		}
		if s.Mode == "interleave" && len(w.Tasks) > 1 {
			return fmt.Errorf("scenario: window %d: interleave mode allows one task per window", wi)
		}
	}
	return nil
}
