package sim

import (
	"fmt"
	"math/rand/v2"
	"strconv"
	"strings"
	"time"

	"github.com/theory/sqljson/path"
)

// All random choices come from one PCG stream derived from the seed; the
// generator only writes scenarios, it never runs while one executes.
func newRNG(seed uint64, stream uint64) *rand.Rand {
	return rand.New(rand.NewPCG(seed, 0x5eed0000+stream))
}

type gen struct {
	r *rand.Rand
}

func (g *gen) pick(ss ...string) string { return ss[g.r.IntN(len(ss))] }
func (g *gen) chance(p float64) bool    { return g.r.Float64() < p }

// ---------------------------------------------------------------------------
// Random paths: a small recursive generator over the jsonpath grammar. Texts
// that path.Parse rejects are discarded by the caller.

var genKeys = []string{"a", "b", "c"}

func (g *gen) key() string { return genKeys[g.r.IntN(len(genKeys))] }

func (g *gen) literal() string {
	switch g.r.IntN(8) {
	case 0:
		return `"` + g.pick("a", "abc", "x", "12", "2015-08-02") + `"`
	case 1:
		return "null"
	case 2:
		return g.pick("true", "false")
	case 3:
		return g.pick("1.5", "0.5", "2.0", "1e1")
	default:
		return strconv.Itoa(g.r.IntN(5))
	}
}

func (g *gen) primary(depth int, inFilter bool, allowWild bool) string {
	switch n := g.r.IntN(10); {
	case n < 5:
		if inFilter && g.chance(0.75) {
			return "@"
		}
		return "$"
	case n < 6:
		return "$" + g.pick("x", "z", "o", "min")
	case n < 7 && depth > 0:
		return "(" + g.arith(depth-1, inFilter, allowWild) + ")"
	case n < 8:
		return g.literal()
	default:
		if inFilter {
			return "@"
		}
		return "$"
	}
}

func (g *gen) accessor(depth int, allowWild bool) string {
	switch n := g.r.IntN(20); {
	case n < 6:
		return "." + g.key()
	case n < 8:
		return "[*]"
	case n < 10:
		switch g.r.IntN(6) {
		case 0:
			return "[last]"
		case 1:
			return fmt.Sprintf("[%d to %d]", g.r.IntN(2), 1+g.r.IntN(3))
		case 2:
			return fmt.Sprintf("[%d,%d]", g.r.IntN(3), g.r.IntN(3))
		case 3:
			return "[last - 1]"
		case 4:
			if depth > 0 {
				return "[" + g.arith(depth-1, false, false) + "]"
			}
			fallthrough
		default:
			return "[" + strconv.Itoa(g.r.IntN(3)) + "]"
		}
	case n < 11:
		if allowWild {
			return g.pick(".*", ".**", ".**{1}", ".**{1 to 2}", ".**{0 to last}", ".**{2 to last}")
		}
		return "[*]"
	case n < 15:
		return g.pick(".size()", ".type()", ".double()", ".integer()", ".bigint()", ".number()",
			".string()", ".boolean()", ".abs()", ".floor()", ".ceiling()", ".decimal(4,1)",
			".keyvalue()", ".datetime()", ".date()", ".time()", ".time_tz()", ".timestamp()",
			".timestamp_tz()", ".time(1)", ".timestamp_tz(2)")
	default:
		if depth > 0 {
			return " ? (" + g.pred(depth-1, allowWild) + ")"
		}
		return "." + g.key()
	}
}

func (g *gen) accessorExpr(depth int, inFilter, allowWild bool) string {
	s := g.primary(depth, inFilter, allowWild)
	n := g.r.IntN(4)
	if s == "$" && n == 0 && g.chance(0.7) {
		n = 1
	}
	for i := 0; i < n; i++ {
		s += g.accessor(depth, allowWild)
	}
	return s
}

func (g *gen) arith(depth int, inFilter, allowWild bool) string {
	if depth <= 0 || g.chance(0.6) {
		return g.accessorExpr(depth, inFilter, allowWild)
	}
	switch g.r.IntN(7) {
	case 0:
		return "-" + g.accessorExpr(depth-1, inFilter, allowWild)
	case 1:
		return "+" + g.accessorExpr(depth-1, inFilter, allowWild)
	default:
		return g.arith(depth-1, inFilter, allowWild) + " " + g.pick("+", "-", "*", "/", "%") + " " + g.arith(depth-1, inFilter, allowWild)
	}
}

func (g *gen) pred(depth int, allowWild bool) string {
	switch n := g.r.IntN(14); {
	case n < 6 || depth <= 0:
		return g.arith(depth, true, allowWild) + " " + g.pick("==", "!=", "<", "<=", ">", ">=") + " " + g.arith(depth, true, allowWild)
	case n < 7:
		return g.pred(depth-1, allowWild) + " && " + g.pred(depth-1, allowWild)
	case n < 8:
		return g.pred(depth-1, allowWild) + " || " + g.pred(depth-1, allowWild)
	case n < 9:
		return "!(" + g.pred(depth-1, allowWild) + ")"
	case n < 10:
		return "(" + g.pred(depth-1, allowWild) + ") is unknown"
	case n < 12:
		return "exists(" + g.accessorExpr(depth-1, true, allowWild) + ")"
	case n < 13:
		flag := ""
		if g.chance(0.4) {
			flag = ` flag "` + g.pick("i", "s", "m", "q", "iq") + `"`
		}
		return g.accessorExpr(depth-1, true, allowWild) + ` like_regex "` + g.pick("^a", "b", "a.c", "[0-9]+", "x$") + `"` + flag
	default:
		return g.accessorExpr(depth-1, true, allowWild) + " starts with " + g.pick(`"a"`, `"1"`, "$s")
	}
}

// randomPath returns a parseable random path text, or "" after too many
// rejected attempts.
func (g *gen) randomPath(allowWild bool) string {
	for attempt := 0; attempt < 40; attempt++ {
		depth := 1 + g.r.IntN(3)
		var s string
		if g.chance(0.2) {
			s = g.pred(depth, allowWild)
			s = strings.ReplaceAll(s, "@", "$")
		} else if g.chance(0.2) {
			s = g.arith(depth, false, allowWild)
		} else {
			s = g.accessorExpr(depth, false, allowWild)
		}
		if g.chance(0.25) {
			s = "strict " + s
		}
		if strings.Count(s, "keyvalue") > 1 {
			continue // known finding pattern, see DESIGN 6.1
		}
		if strings.Contains(s, "keyvalue") && textualWild(s) {
			// A wildcard may meet the three-member {key,value,id} object
			// that keyvalue() creates: member order again (DESIGN 3.6).
			continue
		}
		if parses(s) {
			return s
		}
	}
	return ""
}

// randomDoc generates a small JSON document over keys a b c. With single
// set, every object has at most one member (wildcard-safe).
func (g *gen) randomDoc(depth int, single bool) string {
	if depth <= 0 || g.chance(0.3) {
		switch g.r.IntN(9) {
		case 0:
			return "null"
		case 1:
			return g.pick("true", "false")
		case 2:
			return `"` + g.pick("a", "abc", "x", "12", "1.5", "2015-08-02", "12:00:00", "2015-08-02T10:00:00+02:00") + `"`
		case 3:
			return g.pick("1.5", "-2.5", "0.5", "1e2")
		default:
			return strconv.Itoa(g.r.IntN(6) - 1)
		}
	}
	if g.chance(0.5) {
		n := g.r.IntN(5)
		parts := make([]string, n)
		for i := range parts {
			parts[i] = g.randomDoc(depth-1, single)
		}
		return "[" + strings.Join(parts, ",") + "]"
	}
	n := 1 + g.r.IntN(3)
	if single {
		n = 1
	}
	perm := g.r.Perm(len(genKeys))
	parts := make([]string, 0, n)
	for i := 0; i < n; i++ {
		parts = append(parts, `"`+genKeys[perm[i]]+`":`+g.randomDoc(depth-1, single))
	}
	return "{" + strings.Join(parts, ",") + "}"
}

// ---------------------------------------------------------------------------
// Static facts about pool entries, computed once.

type poolInfo struct {
	wild     bool
	needsVar bool
}

var (
	poolPathInfo []poolInfo
	poolDocSafe  []bool // wildcard-safe documents
	poolVarSafe  []bool
)

// InitPool parses the curated pool and fails on entries that do not parse.
func InitPool() error {
	poolPathInfo = poolPathInfo[:0]
	for _, p := range poolPaths {
		pa, err := path.Parse(p.Text)
		if err != nil {
			return harnessf("pool path %q does not parse: %v", p.Text, err)
		}
		anc, _ := walkAST(pa.AST)
		poolPathInfo = append(poolPathInfo, poolInfo{wild: usesWildcard(anc), needsVar: strings.Contains(strings.ReplaceAll(p.Text, "$.", ""), "$") && hasVar(p.Text)})
	}
	poolDocSafe = poolDocSafe[:0]
	for _, d := range poolDocs {
		v, err := decodeJSON(DocSpec{JSON: d.JSON})
		if err != nil {
			return harnessf("pool doc %s: %v", d.Name, err)
		}
		poolDocSafe = append(poolDocSafe, maxMembers(v) <= 1)
	}
	poolVarSafe = poolVarSafe[:0]
	for _, s := range poolVars {
		v, err := decodeJSON(DocSpec{JSON: s})
		if err != nil {
			return harnessf("pool vars: %v", err)
		}
		safe := true
		for _, e := range v.(map[string]any) {
			if maxMembers(e) > 1 {
				safe = false
			}
		}
		poolVarSafe = append(poolVarSafe, safe)
	}
	return nil
}

func hasVar(text string) bool {
	for i := 0; i+1 < len(text); i++ {
		if text[i] == '$' {
			c := text[i+1]
			if (c >= 'a' && c <= 'z') || (c >= 'A' && c <= 'Z') || c == '_' {
				return true
			}
		}
	}
	return false
}

// Named zones include pairs whose abbreviations coincide while their offsets
// differ (CST: Chicago/Shanghai, IST: Kolkata/Dublin).
var genZones = []string{"", "", "UTC", "+05:30", "-08:00", "America/New_York", "America/New_York", "Australia/Lord_Howe",
	"Europe/London", "America/Chicago", "Asia/Shanghai", "Asia/Kolkata", "Europe/Dublin"}

// dstInstants are instants near DST changes and year ends used as
// clock-jump targets (times of day kept between 01:00 and 20:00 UTC).
func (g *gen) jumpTarget(after time.Time) time.Time {
	y := after.Year() + g.r.IntN(3)
	var m time.Month
	var d int
	switch g.r.IntN(8) {
	case 0: // US spring forward: second Sunday of March
		m, d = time.March, 7+g.r.IntN(9)
	case 1: // US fall back: first Sunday of November
		m, d = time.November, 1+g.r.IntN(8)
	case 2: // Lord Howe / AU: first Sunday of April
		m, d = time.April, 1+g.r.IntN(8)
	case 3: // first Sunday of October
		m, d = time.October, 1+g.r.IntN(8)
	case 4: // EU: last Sunday of March / October
		m, d = g.pickMonth(time.March, time.October), 24+g.r.IntN(8)
	case 5:
		m, d = time.December, 31
	default:
		m, d = time.Month(1+g.r.IntN(12)), 1+g.r.IntN(28)
	}
	t := time.Date(y, m, d, 1+g.r.IntN(19), g.r.IntN(60), g.r.IntN(60), 0, time.UTC)
	if !t.After(after) {
		t = time.Date(after.Year()+1, m, d, 1+g.r.IntN(19), g.r.IntN(60), 0, 0, time.UTC)
	}
	return t
}

func (g *gen) pickMonth(a, b time.Month) time.Month {
	if g.chance(0.5) {
		return a
	}
	return b
}

// GenOptions selects the scenario family.
type GenOptions struct {
	Property string // "C19" or "C20"
	Mode     string // "interleave" or "window"
}

// Generate writes the scenario for seed.
func Generate(seed uint64, opt GenOptions) *Scenario {
	g := &gen{r: newRNG(seed, 1)}
	sc := &Scenario{Version: 1, Property: opt.Property, Seed: seed, Mode: opt.Mode}

	// Swarm knobs for this scenario.
	wildOK := g.chance(0.3)
	nTasks := 2 + g.r.IntN(7)
	if opt.Property == "C20" {
		nTasks = 1 + g.r.IntN(4)
	}
	maxOps := 1 + g.r.IntN(6)
	nPaths := 1 + g.r.IntN(nTasks+1)
	if g.chance(0.35) {
		nPaths = 1 // maximal contention on one Path
	}
	generatedShare := g.pick("none", "some", "some", "all")
	useNumber := g.chance(0.3)
	faultRate := []float64{0, 0, 0.1, 0.25, 0.6}[g.r.IntN(5)]
	if opt.Property == "C20" {
		faultRate = []float64{0.5, 0.8, 1}[g.r.IntN(3)]
	}
	enable := func() bool { return g.chance(0.6) }
	fPoll, fStep, fDeadline, fParent, fCancel := enable(), enable(), enable(), enable(), enable()
	if !fPoll && !fStep {
		fPoll, fStep = true, true
	}
	fJump, fGC := enable(), enable()
	silentShare := []float64{0, 0.3, 0.7}[g.r.IntN(3)]
	tzShare := []float64{0, 0.4, 0.9}[g.r.IntN(3)]
	deadlineTask := g.r.IntN(nTasks)

	// Start of the fake clock: 2000..2035, 01:00..20:00 UTC.
	start := time.Date(2000+g.r.IntN(36), time.Month(1+g.r.IntN(12)), 1+g.r.IntN(28),
		1+g.r.IntN(19), g.r.IntN(60), g.r.IntN(60), 0, time.UTC)
	sc.Start = start.Format(time.RFC3339)

	// Shared paths.
	var poolChoice []int
	for i := range poolPaths {
		if poolPathInfo[i].wild && !wildOK {
			continue
		}
		poolChoice = append(poolChoice, i)
	}
	var homeGroups []string
	generated := map[int]bool{}
	for len(sc.Paths) < nPaths {
		fromGen := generatedShare == "all" || (generatedShare == "some" && g.chance(0.4))
		if fromGen {
			if s := g.randomPath(wildOK); s != "" {
				generated[len(sc.Paths)] = true
				sc.Paths = append(sc.Paths, s)
				continue
			}
		}
		i := poolChoice[g.r.IntN(len(poolChoice))]
		sc.Paths = append(sc.Paths, poolPaths[i].Text)
		homeGroups = append(homeGroups, poolPaths[i].Groups...)
	}

	nValid := len(sc.Paths)
	if g.chance(0.5) {
		for i, n := 0, 1+g.r.IntN(3); i < n; i++ {
			sc.Paths = append(sc.Paths, poolParseOnly[g.r.IntN(len(poolParseOnly))])
		}
	}

	// Shared documents: home documents of the chosen pool paths first.
	addDoc := func(js string) {
		for _, d := range sc.Docs {
			if d.JSON == js {
				return
			}
		}
		d := DocSpec{JSON: js, Number: useNumber && g.chance(0.7)}
		if !d.Number && g.chance(0.2) {
			d.Int64 = true
		}
		sc.Docs = append(sc.Docs, d)
	}
	for i, d := range poolDocs {
		if (wildOK && !poolDocSafe[i]) || d.NoGen {
			continue
		}
		for _, hg := range homeGroups {
			if d.Group == hg && g.chance(0.6) {
				addDoc(d.JSON)
			}
		}
	}
	nDocs := 1 + g.r.IntN(3)
	for tries := 0; len(sc.Docs) < nDocs && tries < 50; tries++ {
		if g.chance(0.5) {
			addDoc(g.randomDoc(3, wildOK))
			continue
		}
		i := g.r.IntN(len(poolDocs))
		if (wildOK && !poolDocSafe[i]) || poolDocs[i].NoGen {
			continue
		}
		addDoc(poolDocs[i].JSON)
	}
	if len(sc.Docs) > 5 {
		g.r.Shuffle(len(sc.Docs), func(i, j int) { sc.Docs[i], sc.Docs[j] = sc.Docs[j], sc.Docs[i] })
		sc.Docs = sc.Docs[:5]
	}
	for i, v := range poolVars {
		if wildOK && !poolVarSafe[i] {
			continue
		}
		if g.chance(0.5) {
			d := DocSpec{JSON: v, Number: useNumber && g.chance(0.5)}
			if !d.Number && g.chance(0.25) {
				d.Native = true
			}
			sc.Vars = append(sc.Vars, d)
		}
	}

	// Generated paths can be quadratic or cubic in the document: they only
	// ever meet small documents (the large ones are for their own pool paths).
	bigDoc := map[int]bool{}
	small := -1
	for di, d := range sc.Docs {
		if len(d.JSON) > 400 {
			bigDoc[di] = true
		} else if small < 0 {
			small = di
		}
	}
	if small < 0 {
		sc.Docs = append(sc.Docs, DocSpec{JSON: `[1,2,3]`})
		small = len(sc.Docs) - 1
	}

	// Tasks and operations.
	for ti := 0; ti < nTasks; ti++ {
		var ts TaskSpec
		nOps := 1 + g.r.IntN(maxOps)
		for oi := 0; oi < nOps; oi++ {
			op := OpSpec{Path: g.r.IntN(nValid), Doc: g.r.IntN(len(sc.Docs)), Vars: -1}
			switch n := g.r.IntN(100); {
			case n < 35:
				op.Kind = "query"
			case n < 45:
				op.Kind = "first"
			case n < 60:
				op.Kind = "exists"
			case n < 70:
				op.Kind = "match"
			case n < 80:
				op.Kind = "existsormatch"
			case n < 85:
				op.Kind = "string"
			case n < 87:
				op.Kind = "marshal"
			case n < 90:
				op.Kind = "ispredicate"
			case n < 94:
				op.Kind = "parse"
				op.Path = g.r.IntN(len(sc.Paths))
			case n < 96:
				op.Kind = g.pick("scan", "unmarshal")
				op.Path = g.r.IntN(len(sc.Paths))
				op.Path2 = g.r.IntN(len(sc.Paths))
			case n < 98:
				op.Kind = "rekeyquery"
			case n < 99 && g.chance(0.3):
				op.Kind = "churn"
			default:
				op.Kind = "parsequery"
			}
			if opt.Property == "C20" && (!op.IsExec() || op.Kind == "rekeyquery") {
				op.Kind = "query"
				op.Path, op.Path2 = op.Path%nValid, 0
			}
			if op.IsExec() {
				if len(sc.Vars) > 0 && g.chance(0.7) {
					op.Vars = g.r.IntN(len(sc.Vars))
					if len(sc.Vars) > 1 && g.chance(0.15) {
						op.Vars2 = 1 + g.r.IntN(len(sc.Vars))
					}
				}
				op.Silent = g.chance(silentShare)
				op.TZ = g.chance(tzShare)
				op.Zone = genZones[g.r.IntN(len(genZones))]
				op.TZOuter = g.chance(0.3)
				switch n := g.r.IntN(10); {
				case n < 2:
					op.Via = "new"
				case n < 4:
					op.Via = "exec"
				}
				if !op.TZOuter && op.Zone != "" && g.chance(0.2) {
					op.TZDerive = genZones[2+g.r.IntN(len(genZones)-2)]
				}
				switch n := g.r.IntN(10); {
				case n < 4:
					op.Ctx = ""
				case n < 6 && fCancel:
					op.Ctx = "cancel"
				case n < 8 && fDeadline:
					op.Ctx = "deadline"
				case n < 9 && fParent:
					op.Ctx = "parent"
				case fCancel:
					op.Ctx = g.pick("cause", "farcancel")
				}
				if g.chance(faultRate) && op.Kind != "rekeyquery" {
					f := &Fault{Err: "canceled"}
					if (fPoll && g.chance(0.5)) || !fStep {
						f.Model = "poll"
					} else {
						f.Model = "step"
					}
					// Small indices land inside most executions; a few
					// large ones never fire and exercise the no-fault path.
					f.K = g.r.IntN(14)
					if g.chance(0.15) {
						f.K = g.r.IntN(60)
					}
					if g.chance(0.08) {
						f.Model, f.K = "pre", 0
					}
					switch op.Ctx {
					case "deadline":
						f.Err = "deadline"
						if ti != deadlineTask {
							op.Ctx = "cancel"
							f.Err = "canceled"
						}
					case "":
						if g.chance(0.4) {
							f.Err = "deadline"
						}
					}
					op.Fault = f
				}
			}
			if generated[op.Path] && bigDoc[op.Doc] {
				op.Doc = small
			}
			ts.Ops = append(ts.Ops, op)
		}
		sc.Tasks = append(sc.Tasks, ts)
	}

	// Schedule.
	nWin := 5 + g.r.IntN(120)
	style := g.pick("lockstep", "mixed", "mixed", "pairs", "solo")
	if opt.Mode == "interleave" {
		style = "solo"
	}
	clock := start
	for wi := 0; wi < nWin; wi++ {
		var win Window
		switch style {
		case "solo":
			// Runs of one task, so that ops overlap in all ways: long
			// runs finish whole ops, short runs interleave steps.
			win.Tasks = []int{g.r.IntN(nTasks)}
		case "lockstep":
			for t := 0; t < nTasks; t++ {
				win.Tasks = append(win.Tasks, t)
			}
		case "pairs":
			a := g.r.IntN(nTasks)
			b := g.r.IntN(nTasks)
			win.Tasks = []int{a}
			if b != a {
				win.Tasks = append(win.Tasks, b)
			}
		default:
			for t := 0; t < nTasks; t++ {
				if g.chance(0.6) {
					win.Tasks = append(win.Tasks, t)
				}
			}
			if len(win.Tasks) == 0 {
				win.Tasks = []int{g.r.IntN(nTasks)}
			}
		}
		if fJump && g.chance(0.04) {
			clock = g.jumpTarget(clock)
			win.JumpTo = clock.Format(time.RFC3339)
		}
		if fGC && g.chance(0.015) {
			win.GC = true
			if g.chance(0.5) {
				win.Ballast = 1 + g.r.IntN(2000)
			}
		}
		sc.Schedule = append(sc.Schedule, win)
	}
	if opt.Mode == "interleave" && g.chance(0.5) {
		// Burst structure: repeat each choice a few times.
		var burst []Window
		for _, w := range sc.Schedule {
			n := 1 + g.r.IntN(6)
			burst = append(burst, w)
			for i := 1; i < n; i++ {
				burst = append(burst, Window{Tasks: w.Tasks})
			}
		}
		sc.Schedule = burst
	}
	sc.Note = fmt.Sprintf("wild=%v gen=%s faultRate=%.2f style=%s", wildOK, generatedShare, faultRate, style)
	return sc
}

// TwinCount is the number of curated (path, home document) pairs.
func TwinCount() int { return len(twinPairs()) }

func twinPairs() [][2]int {
	var out [][2]int
	for pi, p := range poolPaths {
		for di, d := range poolDocs {
			if poolPathInfo[pi].wild && !poolDocSafe[di] {
				continue
			}
			if groupIn(d.Group, p.Groups) {
				out = append(out, [2]int{pi, di})
			}
		}
	}
	return out
}

// TwinScenario is the directed family for the race oracle: three tasks run
// call lists over the SAME never-before-used Path, document and variables in
// lock-step windows. Variant 0 and 2 use identical lists (clones), so that
// the first evaluation of every node, and the first String()/MarshalText()
// of the Path, happen in two tasks with no happens-before edge between them;
// variants 1 and 3 stagger the lists so that String, Parse, Scan and the
// executor overlap pairwise.
func TwinScenario(idx int, mode string) *Scenario {
	pairs := twinPairs()
	// Pair-major numbering: the four variants of one (path, document) pair
	// are neighbours, so one worker process meets the same path repeatedly.
	pr := pairs[(idx/4)%len(pairs)]
	variant := idx%4 + 4*(idx/(4*len(pairs)))
	p, d := poolPaths[pr[0]], poolDocs[pr[1]]
	other := poolPaths[(pr[0]+7)%len(poolPaths)].Text
	sc := &Scenario{Version: 1, Property: "C19", Seed: uint64(idx), Mode: mode, Start: "2021-03-10T09:30:00Z",
		Paths: []string{p.Text, other, poolParseOnly[idx%len(poolParseOnly)]},
		Docs:  []DocSpec{{JSON: d.JSON, Number: variant%4 >= 2 && variant%2 == 1, Int64: variant%4 == 0 && idx%2 == 1}},
		Vars:  []DocSpec{{JSON: poolVars[0], Native: variant%4 == 2}}, Note: fmt.Sprintf("twin family variant %d", variant%4)}
	zones := []string{"America/New_York", "UTC", "+05:30", "", "America/Chicago", "Asia/Shanghai", "Asia/Kolkata", "Europe/Dublin"}
	zone := zones[(idx+variant)%len(zones)]
	mk := func(kind string) OpSpec {
		o := OpSpec{Kind: kind, Path: 0, Doc: 0, Vars: 0}
		if o.IsExec() {
			o.TZ = true
			o.Zone = zone
			o.TZOuter = variant%4 == 1
			o.Via = []string{"", "new", "exec"}[(idx+len(kind))%3]
			if variant%4 == 3 && zone != "" && kind != "query" {
				o.TZDerive = "Europe/London"
			}
			o.Silent = (idx+variant)%3 == 0
		}
		switch kind {
		case "scan", "unmarshal":
			o.Path2 = 1
		case "churnI":
			// the parse-use-drop loop, in interleave mode only (it is
			// sequential by nature and slow under the race detector)
			o.Kind = "churn"
			if mode != "interleave" {
				o.Kind = "ispredicate"
			}
		case "parsebad":
			o.Kind, o.Path = "parse", 2
		case "scanbad":
			o.Kind, o.Path2 = "scan", 2
		}
		return o
	}
	var lists [][]string
	switch variant % 4 {
	case 0:
		l := []string{"query", "exists", "string", "first", "parse", "match", "marshal", "existsormatch", "ispredicate", "parsequery", "rekeyquery"}
		lists = [][]string{l, l, l}
	case 2:
		l := []string{"string", "marshal", "ispredicate", "parse", "parsebad", "scan", "parsequery", "query", "exists", "first"}
		lists = [][]string{l, l, l}
	case 1:
		lists = [][]string{
			{"query", "exists", "string", "parse", "first", "marshal"},
			{"string", "query", "parse", "match", "query", "parsequery"},
			{"exists", "parse", "query", "ispredicate", "existsormatch", "string"},
		}
	default:
		lists = [][]string{
			{"parse", "scan", "query", "string", "unmarshal", "first", "churnI"},
			{"query", "string", "unmarshal", "parsebad", "exists", "scanbad"},
			{"string", "exists", "parse", "scan", "query", "marshal"},
		}
	}
	if d.Group == "verydeep" {
		// Fan-out: eight callers deep inside the same document at once.
		l := []string{"query", "exists", "first"}
		lists = [][]string{l, l, l, l, l, l, l, l}
	}
	for _, l := range lists {
		var ts TaskSpec
		for _, k := range l {
			ts.Ops = append(ts.Ops, mk(k))
		}
		sc.Tasks = append(sc.Tasks, ts)
	}
	if variant%4 == 3 {
		// Two WithVars options on one call (the second wins).
		sc.Vars = append(sc.Vars, DocSpec{JSON: poolVars[2]})
		for ti := range sc.Tasks {
			for oi := range sc.Tasks[ti].Ops {
				if o := &sc.Tasks[ti].Ops[oi]; o.IsExec() && (ti+oi)%2 == 0 {
					o.Vars, o.Vars2 = 0, 2
				}
			}
		}
	}
	n := len(sc.Tasks)
	if mode == "interleave" {
		// Round-robin one step at a time: maximal interleaving of the
		// same path's executions.
		for w := 0; w < 900; w++ {
			sc.Schedule = append(sc.Schedule, Window{Tasks: []int{w % n}})
		}
		return sc
	}
	all := make([]int, n)
	for i := range all {
		all[i] = i
	}
	for w := 0; w < 600; w++ {
		sc.Schedule = append(sc.Schedule, Window{Tasks: all})
	}
	return sc
}

// parses reports whether path.Parse accepts text. Parse panics on a few
// inputs (seen: "- -1.5", strconv.ParseFloat in ast.NewNumeric; that is
// C04's subject, not this simulator's), so the generator treats a panic as
// a rejection.
func parses(text string) (ok bool) {
	defer func() {
		if recover() != nil {
			ok = false
		}
	}()
	_, err := path.Parse(text)
	return err == nil
}

// StormScenario is the directed family for code that is only unsafe while a
// long, non-synchronising computation of another caller is in progress: eight
// tasks parse, scan and unmarshal long texts (one of them ends in a literal
// on which Parse panics, as it does on the unchanged tree) in lock-step
// windows, so that many Parse calls really overlap in time. Window mode only.
func StormScenario(idx int) *Scenario {
	long := "$[*] ? ("
	for i := 0; i < 40; i++ {
		if i > 0 {
			long += " || "
		}
		long += fmt.Sprintf("@.a%d == %d", (i+idx)%9, i)
	}
	longOK := long + ")"
	longBad := long + " || @ > 99999999999999999999)"
	longSyntax := long + " || )"
	sc := &Scenario{Version: 1, Property: "C19", Seed: uint64(idx), Mode: "window", Start: "2021-03-10T09:30:00Z",
		Paths: []string{longOK, longBad, longSyntax, []string{"$.a", "$.userName", "STRICT $.Abc"}[idx%3], poolPaths[idx%len(poolPaths)].Text},
		Docs:  []DocSpec{{JSON: `[{"a1":1},{"a2":2}]`}}, Vars: []DocSpec{{JSON: poolVars[1]}}, Note: "parse storm family"}
	kinds := [][]OpSpec{
		{{Kind: "parse", Path: 0}, {Kind: "scan", Path: 3, Path2: 1}, {Kind: "parse", Path: 0}, {Kind: "unmarshal", Path: 3, Path2: 0}},
		{{Kind: "scan", Path: 3, Path2: 1}, {Kind: "parse", Path: 0}, {Kind: "parse", Path: 2}, {Kind: "parse", Path: 0}},
		{{Kind: "parse", Path: 3}, {Kind: "parse", Path: 4}, {Kind: "scan", Path: 3, Path2: 1}, {Kind: "parse", Path: 0}},
		{{Kind: "unmarshal", Path: 3, Path2: 1}, {Kind: "parse", Path: 0}, {Kind: "scan", Path: 4, Path2: 0}, {Kind: "parse", Path: 1}},
	}
	for t := 0; t < 8; t++ {
		var ts TaskSpec
		for r := 0; r < 6; r++ {
			for _, o := range kinds[(t+r+idx)%len(kinds)] {
				o.Vars = -1
				ts.Ops = append(ts.Ops, o)
			}
		}
		sc.Tasks = append(sc.Tasks, ts)
	}
	all := []int{0, 1, 2, 3, 4, 5, 6, 7}
	for w := 0; w < 80; w++ {
		sc.Schedule = append(sc.Schedule, Window{Tasks: all})
	}
	return sc
}
