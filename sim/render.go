package sim

import (
	"context"
	"encoding/json"
	"errors"
	"fmt"
	"sort"
	"strconv"
	"strings"
	"time"

	"github.com/theory/sqljson/path"
	"github.com/theory/sqljson/path/exec"
	"github.com/theory/sqljson/path/parser"
	"github.com/theory/sqljson/path/types"
)

// renderer turns results into canonical strings. In ranked mode the "id"
// member of .keyvalue() triples (an address distance, which legitimately
// differs between processes) is replaced by its first-occurrence rank.
type renderer struct {
	sb     strings.Builder
	ranked bool
	ranks  map[int64]int
}

func renderValue(v any, ranked bool) string {
	r := &renderer{ranked: ranked, ranks: map[int64]int{}}
	r.value(v)
	return r.sb.String()
}

func isKeyValueTriple(m map[string]any) (int64, bool) {
	if len(m) != 3 {
		return 0, false
	}
	if _, ok := m["key"].(string); !ok {
		return 0, false
	}
	if _, ok := m["value"]; !ok {
		return 0, false
	}
	id, ok := m["id"].(int64)
	return id, ok
}

func (r *renderer) dt(kind string, s string, t time.Time) {
	_, off := t.Zone()
	fmt.Fprintf(&r.sb, "%s(%s|%d|%d)", kind, s, t.UnixNano(), off)
}

func (r *renderer) value(v any) {
	switch v := v.(type) {
	case nil:
		r.sb.WriteString("null")
	case bool:
		r.sb.WriteString(strconv.FormatBool(v))
	case float64:
		r.sb.WriteString("f:" + strconv.FormatFloat(v, 'g', -1, 64))
	case int64:
		r.sb.WriteString("i:" + strconv.FormatInt(v, 10))
	case int:
		r.sb.WriteString("int:" + strconv.Itoa(v))
	case json.Number:
		r.sb.WriteString("n:" + string(v))
	case string:
		r.sb.WriteString(strconv.Quote(v))
	case []any:
		r.sb.WriteByte('[')
		for i, e := range v {
			if i > 0 {
				r.sb.WriteByte(',')
			}
			r.value(e)
		}
		r.sb.WriteByte(']')
	case map[string]any:
		if id, ok := isKeyValueTriple(v); ok && r.ranked {
			rank, seen := r.ranks[id]
			if !seen {
				rank = len(r.ranks)
				r.ranks[id] = rank
			}
			r.sb.WriteString("{kv key:" + strconv.Quote(v["key"].(string)) + ",value:")
			r.value(v["value"])
			r.sb.WriteString(",id#" + strconv.Itoa(rank) + "}")
			return
		}
		keys := make([]string, 0, len(v))
		for k := range v {
			keys = append(keys, k)
		}
		sort.Strings(keys)
		r.sb.WriteByte('{')
		for i, k := range keys {
			if i > 0 {
				r.sb.WriteByte(',')
			}
			r.sb.WriteString(strconv.Quote(k) + ":")
			r.value(v[k])
		}
		r.sb.WriteByte('}')
	case *types.Date:
		r.dt("Date", v.String(), v.Time)
	case *types.Time:
		r.dt("Time", v.String(), v.Time)
	case *types.TimeTZ:
		r.dt("TimeTZ", v.String(), v.Time)
	case *types.Timestamp:
		r.dt("Timestamp", v.String(), v.Time)
	case *types.TimestampTZ:
		r.dt("TimestampTZ", v.String(), v.Time)
	default:
		fmt.Fprintf(&r.sb, "%T:%v", v, v)
	}
}

// errClasses lists, in fixed order, the sentinel errors err wraps.
func errClasses(err error) string {
	if err == nil {
		return ""
	}
	var c []string
	for _, s := range []struct {
		name string
		err  error
	}{
		{"NULL", exec.NULL},
		{"ErrExecution", exec.ErrExecution},
		{"ErrVerbose", exec.ErrVerbose},
		{"ErrInvalid", exec.ErrInvalid},
		{"Canceled", context.Canceled},
		{"DeadlineExceeded", context.DeadlineExceeded},
		{"ErrPath", path.ErrPath},
		{"ErrParse", parser.ErrParse},
		{"ErrScan", path.ErrScan},
	} {
		if errors.Is(err, s.err) {
			c = append(c, s.name)
		}
	}
	return strings.Join(c, "+")
}

// Outcome is the observable result of one operation.
type Outcome struct {
	Raw     string `json:"raw"`    // rendered return value with raw keyvalue ids
	Ranked  string `json:"ranked"` // rendered return value with ranked keyvalue ids
	Err     string `json:"err,omitempty"`
	Classes string `json:"classes,omitempty"`
	Panic   string `json:"panic,omitempty"`

	// Simulation bookkeeping (not part of equality).
	Polls      int   `json:"polls"`
	Steps      int   `json:"steps"`
	Fired      bool  `json:"fired,omitempty"`      // the fault's instant was reached
	Observable bool  `json:"observable,omitempty"` // after it, the executor polled again or began another step
	PollsAfter int   `json:"polls_after,omitempty"`
	StepsAfter int   `json:"steps_after,omitempty"`
	StartNanos int64 `json:"start_ns"` // fake time at which the op started
	FireNode   string `json:"fire_node,omitempty"`
	FireStack  string `json:"fire_stack,omitempty"` // node kinds open (being evaluated) when the fault fired
	Identity   string `json:"identity,omitempty"`   // rekeyquery: how the in-place and the fresh-copy results differ

	nodeKinds map[string]int
	cleanup   func()
	ret       any
	rawKept   string // rendering after the caller overwrote what the call created for it
	errObj    error
}

// SameRaw reports observable equality including raw keyvalue ids (valid only
// within one process and for the same document objects).
func (o *Outcome) SameRaw(p *Outcome) bool {
	return o.Raw == p.Raw && o.Err == p.Err && o.Classes == p.Classes && o.Panic == p.Panic
}

// SameRanked reports observable equality with keyvalue ids compared by rank.
func (o *Outcome) SameRanked(p *Outcome) bool {
	return o.Ranked == p.Ranked && o.Err == p.Err && o.Classes == p.Classes && o.Panic == p.Panic
}

// Brief renders the outcome for reports.
func (o *Outcome) Brief() string {
	s := o.Raw
	if o.Err != "" {
		s += " err=" + strconv.Quote(o.Err) + " [" + o.Classes + "]"
	}
	if o.Panic != "" {
		s += " PANIC " + o.Panic
	}
	return s
}
